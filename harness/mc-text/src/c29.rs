//! C29 - chunked encoding respects limits and partitions the token stream.
//!
//! Box: {word-level WordPiece, byte-level BPE} x CLS present/absent x SEP
//! present/absent x input {single text of n tokens | pair (n1, n tokens)} x
//! max_chunk_len {None, 0..=Lmax} x overlap 0..=Omax. Every token of an input
//! is distinct, so the position of a chunk's content in the full encoding is
//! unambiguous.
//!
//! Oracle: the four laws of the statement, evaluated on what
//! `Tokenizer::encode_chunks` returns, for every *satisfiable* request. The
//! requested content window W is `max_chunk_len - special tokens` (minus the
//! first sequence for pairs; unbounded when `max_chunk_len` is `None`); a
//! request is satisfiable iff `W >= 1` and `overlap < W`. Unsatisfiable
//! requests are only recorded. The canonical window arithmetic
//! (`refmodel::canonical_windows`) is the independent reference the result is
//! additionally compared with (difference = observation, unless a law fails).

use std::collections::HashMap;

use rten_text::models::{Bpe, BpeOptions, WordPiece};
use rten_text::pre_tokenizers;
use rten_text::tokenizer::{EncodeOptions, EncoderInput, Tokenizer, TokenizerOptions};
use vp_core::{Ctx, Json, json};

use crate::refmodel;
use crate::util::{self, Shard};

#[derive(Clone, Copy, Debug, PartialEq, Eq)]
enum ModelKind {
    WordPiece,
    Bpe,
}

impl ModelKind {
    fn name(self) -> &'static str {
        match self {
            ModelKind::WordPiece => "wordpiece(word-level)+bert-pretokenizer",
            ModelKind::Bpe => "bpe(byte-level,no merges)",
        }
    }
}

#[derive(Clone, Copy, Debug)]
struct Case {
    model: ModelKind,
    cls: bool,
    sep: bool,
    /// `Some(n1)`: pair input whose first sequence has n1 tokens
    n1: Option<usize>,
    /// tokens of the (second) sequence, the one that is chunked
    n: usize,
    limit: Option<usize>,
    overlap: usize,
}

const MAX_FIRST: usize = 8;
const MAX_SECOND: usize = 26;

fn first_text(model: ModelKind, n1: usize) -> String {
    match model {
        ModelKind::WordPiece => (0..n1).map(|i| format!("q{i}")).collect::<Vec<_>>().join(" "),
        ModelKind::Bpe => (0..n1).map(|i| (b'A' + i as u8) as char).collect(),
    }
}

fn second_text(model: ModelKind, n: usize) -> String {
    match model {
        ModelKind::WordPiece => (0..n).map(|i| format!("w{i}")).collect::<Vec<_>>().join(" "),
        ModelKind::Bpe => (0..n).map(|i| (b'a' + i as u8) as char).collect(),
    }
}

fn make_tokenizer(model: ModelKind, cls: bool, sep: bool) -> Tokenizer {
    let opts = TokenizerOptions { cls_token: cls.then_some("[CLS]"), sep_token: sep.then_some("[SEP]") };
    match model {
        ModelKind::WordPiece => {
            let mut vocab: HashMap<String, u32> = HashMap::new();
            vocab.insert("[CLS]".into(), 0);
            vocab.insert("[SEP]".into(), 1);
            vocab.insert("[UNK]".into(), 2);
            for i in 0..MAX_FIRST {
                vocab.insert(format!("q{i}"), 10 + i as u32);
            }
            for i in 0..MAX_SECOND {
                vocab.insert(format!("w{i}"), 100 + i as u32);
            }
            Tokenizer::new(WordPiece::from_vocab(vocab, Default::default()), opts)
                .with_pre_tokenizer(Box::new(pre_tokenizers::Bert::new()))
        }
        ModelKind::Bpe => {
            let mut o = BpeOptions::default();
            o.added_tokens.insert(1000, "[CLS]".to_string());
            o.added_tokens.insert(1001, "[SEP]".to_string());
            Tokenizer::new(Bpe::new(o).expect("Bpe::new with no merges"), opts)
        }
    }
}

/// Everything that depends only on (model, cls, sep).
struct Subject {
    model: ModelKind,
    tok: Tokenizer,
    cls_id: Option<u32>,
    sep_id: Option<u32>,
    /// full encodings (ids, offsets) of first/second texts by token count
    first_full: Vec<(Vec<u32>, Vec<usize>)>,
    second_full: Vec<(Vec<u32>, Vec<usize>)>,
}

impl Subject {
    fn new(model: ModelKind, cls: bool, sep: bool, max_n1: usize, max_n: usize) -> Subject {
        let tok = make_tokenizer(model, cls, sep);
        let plain = make_tokenizer(model, false, false);
        let full = |text: &str, want: usize| -> (Vec<u32>, Vec<usize>) {
            let e = plain.encode(text, None).unwrap_or_else(|e| vp_core::machinery_error(&format!("C29 setup: {e:?}")));
            let ids = e.token_ids().to_vec();
            if ids.len() != want {
                vp_core::machinery_error(&format!("C29 setup: {text:?} encodes to {} tokens, expected {want}", ids.len()));
            }
            let mut sorted = ids.clone();
            sorted.sort();
            sorted.dedup();
            if sorted.len() != ids.len() {
                vp_core::machinery_error("C29 setup: tokens of an input are not distinct");
            }
            let offs = e.token_offsets()[..ids.len()].to_vec();
            (ids, offs)
        };
        let first_full = (0..=max_n1).map(|k| full(&first_text(model, k), k)).collect();
        let second_full = (0..=max_n).map(|k| full(&second_text(model, k), k)).collect();
        let cls_id = cls.then(|| tok.get_token_id("[CLS]").expect("cls id"));
        let sep_id = sep.then(|| tok.get_token_id("[SEP]").expect("sep id"));
        Subject { model, tok, cls_id, sep_id, first_full, second_full }
    }
}

fn case_json(c: &Case) -> Json {
    json!({
        "model": c.model.name(),
        "cls": c.cls,
        "sep": c.sep,
        "input": match c.n1 {
            None => json!({"kind": "single", "tokens": c.n, "text": second_text(c.model, c.n)}),
            Some(n1) => json!({"kind": "pair", "first_tokens": n1, "second_tokens": c.n,
                               "first": first_text(c.model, n1), "second": second_text(c.model, c.n)}),
        },
        "max_chunk_len": c.limit,
        "overlap": c.overlap,
    })
}

#[derive(Default)]
struct CaseOut {
    sigs: Vec<(String, String)>,
    obs: Vec<String>,
    satisfiable: bool,
    canonical_windows: usize,
    returned_chunks: Option<usize>,
}

const SIG_TAIL: &str = "chunks_with_overlap: final partial chunk does not overlap its predecessor (overlap > 0, tokens left over after the last full window)";
const SIG_CLAMP: &str = "encode_chunks panics on a satisfiable request: window clamped to the token count <= overlap trips `assert!(overlap < chunk_size)`";
const SIG_EMPTY_SECOND: &str = "encode_chunks(pair) returns no chunk when the second sequence has no tokens: first-sequence tokens are not covered";

fn window_of(content: &[u32], full: &[u32]) -> Option<(usize, usize)> {
    if content.is_empty() {
        return None;
    }
    let a = full.iter().position(|&t| t == content[0])?;
    let b = a + content.len();
    if b <= full.len() && &full[a..b] == content { Some((a, b)) } else { None }
}

fn check(subj: &Subject, c: &Case) -> CaseOut {
    let mut out = CaseOut::default();
    let n1 = c.n1.unwrap_or(0);
    let first = first_text(c.model, n1);
    let second = second_text(c.model, c.n);
    let input = match c.n1 {
        None => EncoderInput::Item(&second),
        Some(_) => EncoderInput::Pair((&first, &second)),
    };
    let h = c.cls as usize + c.sep as usize * if c.n1.is_some() { 2 } else { 1 };
    // requested content window for the chunked sequence
    let w: Option<usize> = c.limit.map(|l| l.saturating_sub(h).saturating_sub(n1));
    out.satisfiable = match w {
        None => true,
        Some(w) => w >= 1 && c.overlap < w,
    };
    let full1 = &subj.first_full[n1].0;
    let (full2, offs2) = (&subj.second_full[c.n].0, &subj.second_full[c.n].1);
    let canonical: Vec<(usize, usize)> = if !out.satisfiable {
        Vec::new()
    } else if c.n == 0 {
        if n1 > 0 { vec![(0, 0)] } else { Vec::new() }
    } else {
        match w {
            Some(w) if w < c.n => refmodel::canonical_windows(c.n, w, c.overlap),
            _ => vec![(0, c.n)],
        }
    };
    out.canonical_windows = canonical.len();

    let opts = EncodeOptions { max_chunk_len: c.limit, overlap: c.overlap };
    let res = vp_core::catch(|| {
        subj.tok.encode_chunks(input, opts).map(|chunks| {
            chunks.iter().map(|ch| (ch.token_ids().to_vec(), ch.token_offsets().to_vec())).collect::<Vec<_>>()
        })
    });

    if !out.satisfiable {
        let why = match w {
            Some(0) => "content window 0",
            _ => "overlap >= content window",
        };
        let what = match &res {
            Err(_) => "panicked".to_string(),
            Ok(Err(_)) => "returned an error".to_string(),
            Ok(Ok(ch)) if ch.is_empty() => "returned no chunks".to_string(),
            Ok(Ok(_)) => "returned chunks".to_string(),
        };
        out.obs.push(format!("unsatisfiable request ({why}): encode_chunks {what}"));
        return out;
    }

    let chunks = match res {
        Err(p) => {
            let clamp = p.contains("overlap < chunk_size") && c.n >= 1 && c.overlap >= c.n;
            let sig = if clamp {
                SIG_CLAMP.to_string()
            } else {
                format!("encode_chunks panics on a satisfiable request: {}", vp_core::truncate(&p, 80))
            };
            out.sigs.push((sig, format!("panic: {p}; requested window {w:?}, overlap {}, chunked sequence has {} tokens", c.overlap, c.n)));
            return out;
        }
        Ok(Err(e)) => {
            out.sigs.push(("encode_chunks returns an error on a satisfiable request".into(), format!("{e:?}")));
            return out;
        }
        Ok(Ok(ch)) => ch,
    };
    out.returned_chunks = Some(chunks.len());
    let describe = |wins: &[Option<(usize, usize)>]| {
        format!(
            "requested window {w:?}, overlap {}, {} content tokens; rten windows {wins:?}; canonical {canonical:?}; chunks {:?}",
            c.overlap, c.n, chunks.iter().map(|x| &x.0).collect::<Vec<_>>()
        )
    };

    // law 1: chunk length
    if let Some(l) = c.limit {
        if let Some((ids, _)) = chunks.iter().find(|(ids, _)| ids.len() > l) {
            out.sigs.push((
                "chunk has more tokens than max_chunk_len".into(),
                format!("chunk {ids:?} has {} tokens, limit {l}", ids.len()),
            ));
        }
    }

    // law 2: contiguous windows
    let is_special = |t: u32| Some(t) == subj.cls_id || Some(t) == subj.sep_id;
    let mut wins: Vec<Option<(usize, usize)>> = Vec::new();
    let mut first_cover = vec![false; n1];
    let mut structure_ok = true;
    for (ids, _) in &chunks {
        let content: Vec<u32> = ids.iter().copied().filter(|&t| !is_special(t)).collect();
        // expected layout [CLS] first [SEP] second [SEP] - recorded only
        let nspecial = ids.len() - content.len();
        if nspecial != h || (c.cls && ids.first().copied() != subj.cls_id) || (c.sep && ids.last().copied() != subj.sep_id) {
            structure_ok = false;
        }
        let k = content.iter().take_while(|t| full1.contains(t)).count();
        let (fp, sp) = content.split_at(k);
        if !fp.is_empty() {
            match window_of(fp, full1) {
                Some((a, b)) => first_cover[a..b].iter_mut().for_each(|x| *x = true),
                None => out.sigs.push((
                    "pair chunk: first-sequence part is not a contiguous window of the first encoding".into(),
                    format!("chunk {ids:?}, first encoding {full1:?}"),
                )),
            }
        }
        if sp.is_empty() {
            wins.push(None);
        } else {
            match window_of(sp, full2) {
                Some(wd) => wins.push(Some(wd)),
                None => {
                    out.sigs.push((
                        "chunk content is not a contiguous window of the full encoding".into(),
                        format!("chunk {ids:?}, full encoding {full2:?}"),
                    ));
                    return out;
                }
            }
        }
    }
    if !structure_ok {
        out.obs.push("chunk layout is not [CLS] first [SEP] second [SEP] with exactly the configured special tokens".into());
    }

    // law 4a: zero chunks
    if chunks.is_empty() {
        if c.n > 0 {
            out.sigs.push((
                "encode_chunks returns no chunk on a satisfiable request although the input has content tokens".into(),
                describe(&wins),
            ));
        } else if n1 > 0 {
            out.sigs.push((SIG_EMPTY_SECOND.into(), format!("first sequence {:?} ({} tokens), second sequence empty, max_chunk_len {:?}, overlap {}: Ok(vec![])", first, n1, c.limit, c.overlap)));
        }
        return out;
    }
    // first sequence coverage
    if first_cover.iter().any(|x| !x) {
        out.sigs.push((
            "pair chunks do not cover every token of the first sequence".into(),
            format!("first encoding {full1:?}; chunks {:?}", chunks.iter().map(|x| &x.0).collect::<Vec<_>>()),
        ));
    }

    let real: Vec<(usize, usize)> = wins.iter().filter_map(|x| *x).collect();
    if real.len() != wins.len() && c.n > 0 {
        out.obs.push("a chunk without content tokens was returned although the sequence has tokens".into());
    }

    // law 3: consecutive overlap
    let mut overlap_failed = false;
    for i in 0..real.len().saturating_sub(1) {
        let (_, b0) = real[i];
        let (a1, b1) = real[i + 1];
        let actual = b0 as i64 - a1 as i64;
        if actual != c.overlap as i64 {
            overlap_failed = true;
            let last = i + 2 == real.len();
            let shorter = w.is_some_and(|w| b1 - a1 < w);
            let sig = if last && shorter && actual == 0 && c.overlap > 0 {
                SIG_TAIL.to_string()
            } else {
                "consecutive windows overlap by an amount different from the requested overlap".to_string()
            };
            out.sigs.push((sig, format!("windows {i} and {}: overlap {actual}, requested {}; {}", i + 1, c.overlap, describe(&wins))));
            break;
        }
    }

    // law 4b: coverage in order
    if c.n > 0 {
        let mut ok = !real.is_empty() && real[0].0 == 0 && real[real.len() - 1].1 == c.n;
        for i in 0..real.len().saturating_sub(1) {
            if real[i + 1].0 > real[i].1 || real[i + 1].0 < real[i].0 {
                ok = false;
            }
        }
        if !ok {
            out.sigs.push(("windows do not cover every content token in order".into(), describe(&wins)));
        }
    }

    if out.sigs.is_empty() && real != canonical.iter().copied().filter(|&(a, b)| b > a).collect::<Vec<_>>() {
        out.obs.push("all laws hold but the windows differ from the canonical stride arithmetic".into());
    }
    let _ = overlap_failed;

    // outside the statement: the trailing end offset of each chunk
    if subj.model == ModelKind::WordPiece {
        let shift = if c.n1.is_some() { first.len() } else { 0 };
        let total = shift + second.len();
        for ((_, offs), win) in chunks.iter().zip(&wins) {
            if let (Some(&end), Some((_, b))) = (offs.last(), win) {
                let want = if *b < c.n { shift + offs2[*b] } else { total };
                if end != want {
                    out.obs.push("outside the statement: a chunk's trailing end offset is not the offset of the token after its window (encode_chunks computes chunk_start as chunk_idx * chunk_size, ignoring overlap)".into());
                    break;
                }
            }
        }
    }
    out
}

struct Box_ {
    max_n: usize,
    max_n1: usize,
    max_limit: usize,
    max_overlap: usize,
}

pub fn run(ctx: Ctx) -> ! {
    if let Some(p) = ctx.replay.clone() {
        replay(ctx, &p);
    }
    let bx = if ctx.tier.is_thorough() {
        Box_ { max_n: 26, max_n1: 8, max_limit: 32, max_overlap: 16 }
    } else {
        Box_ { max_n: 14, max_n1: 4, max_limit: 14, max_overlap: 8 }
    };
    assert!(bx.max_n <= MAX_SECOND && bx.max_n1 <= MAX_FIRST);
    // shards: model x cls x sep x input kind/first length
    let mut groups: Vec<(ModelKind, bool, bool, Option<usize>)> = Vec::new();
    for model in [ModelKind::WordPiece, ModelKind::Bpe] {
        for cls in [false, true] {
            for sep in [false, true] {
                groups.push((model, cls, sep, None));
                for n1 in 0..=bx.max_n1 {
                    groups.push((model, cls, sep, Some(n1)));
                }
            }
        }
    }
    let limits: Vec<Option<usize>> = std::iter::once(None).chain((0..=bx.max_limit).map(Some)).collect();
    let shards = vp_core::par::map(groups.len(), |gi| {
        let (model, cls, sep, n1) = groups[gi];
        let subj = Subject::new(model, cls, sep, bx.max_n1, bx.max_n);
        let mut sh = Shard::default();
        let (mut cases, mut sat, mut multi, mut reached) = (0u64, 0u64, 0u64, 0u64);
        // simplest first: few tokens, small overlap, small limits
        for n in 0..=bx.max_n {
            for overlap in 0..=bx.max_overlap {
                for &limit in &limits {
                    let c = Case { model, cls, sep, n1, n, limit, overlap };
                    cases += 1;
                    let out = check(&subj, &c);
                    if out.satisfiable {
                        sat += 1;
                        if out.canonical_windows >= 2 {
                            multi += 1;
                        }
                        if out.returned_chunks.is_some_and(|k| k >= 2) {
                            reached += 1;
                        }
                    }
                    if !out.sigs.is_empty() {
                        let again = check(&subj, &c);
                        util::must_reproduce(
                            &out.sigs.iter().map(|x| x.0.clone()).collect::<Vec<_>>(),
                            &again.sigs.iter().map(|x| x.0.clone()).collect::<Vec<_>>(),
                            &format!("{c:?}"),
                        );
                    }
                    for o in &out.obs {
                        sh.observe(o);
                    }
                    sh.class(format!(
                        "satisfiable={} canonical_windows={} returned={:?} violated={}",
                        out.satisfiable, out.canonical_windows.min(6), out.returned_chunks.map(|k| k.min(6)), !out.sigs.is_empty()
                    ));
                    if out.satisfiable && out.canonical_windows >= 3 && overlap >= 1 {
                        sh.sample(1, || {
                            let opts = EncodeOptions { max_chunk_len: limit, overlap };
                            let first = first_text(model, n1.unwrap_or(0));
                            let second = second_text(model, n);
                            let input = match n1 {
                                None => EncoderInput::Item(&second),
                                Some(_) => EncoderInput::Pair((&first, &second)),
                            };
                            let chunks: Vec<Vec<u32>> = vp_core::catch(|| subj.tok.encode_chunks(input, opts).map(|v| v.iter().map(|c| c.token_ids().to_vec()).collect::<Vec<Vec<u32>>>()).unwrap_or_default()).unwrap_or_default();
                            json!({"case": case_json(&c), "chunks_returned": chunks})
                        });
                    }
                    for (sig, detail) in out.sigs {
                        sh.viol(sig, || case_json(&c), || detail);
                    }
                }
            }
        }
        sh.add("cases", cases);
        sh.add("satisfiable_requests", sat);
        sh.add("unsatisfiable_requests_recorded_only", cases - sat);
        sh.add("satisfiable_requests_whose_canonical_answer_has_two_or_more_windows", multi);
        sh.add("satisfiable_requests_where_rten_returned_two_or_more_chunks", reached);
        sh
    });
    let m = util::merge(&ctx, shards, 10);
    let expect = groups.len() as u64 * (bx.max_n as u64 + 1) * (bx.max_overlap as u64 + 1) * limits.len() as u64;
    if m.get("cases") != expect {
        ctx.machinery(&format!("C29: enumerated {} cases, box has {}", m.get("cases"), expect));
    }
    if m.get("satisfiable_requests_where_rten_returned_two_or_more_chunks") == 0 && ctx.violation_count() == 0 {
        ctx.machinery("C29: vacuous - no satisfiable request produced two or more chunks");
    }
    println!(
        "C29 summary: {} cases, {} satisfiable ({} with >=2 canonical windows, {} where rten returned >=2 chunks), {} unsatisfiable recorded only; {} violating",
        m.get("cases"), m.get("satisfiable_requests"), m.get("satisfiable_requests_whose_canonical_answer_has_two_or_more_windows"),
        m.get("satisfiable_requests_where_rten_returned_two_or_more_chunks"), m.get("unsatisfiable_requests_recorded_only"), ctx.violation_count()
    );
    let cov = json!({
        "evaluations": m.get("cases"),
        "distinct_nontrivial": m.get("satisfiable_requests_where_rten_returned_two_or_more_chunks"),
        "rule": "every point of the box exactly once (distinct by construction); non-trivial = satisfiable request for which encode_chunks returned at least two chunks, so the window, overlap and coverage laws were all evaluated on real consecutive chunks",
        "exhaustive": true,
        "axes": {
            "models": [ModelKind::WordPiece.name(), ModelKind::Bpe.name()],
            "cls": [false, true],
            "sep": [false, true],
            "input": format!("single text with 0..={} tokens; pair with first 0..={} tokens and second 0..={} tokens", bx.max_n, bx.max_n1, bx.max_n),
            "max_chunk_len": format!("None, 0..={}", bx.max_limit),
            "overlap": format!("0..={}", bx.max_overlap),
            "groups(model,cls,sep,input kind)": groups.len(),
        },
        "counters": m.counters_json(),
        "distinct_outcome_classes": m.classes.len(),
        "outcome_classes": m.classes.iter().take(40).collect::<Vec<_>>(),
        "samples": m.samples,
        "subject": "rten_text::Tokenizer::encode_chunks (and through it rten_text::split::chunks_with_overlap, which is private)",
    });
    ctx.finish(
        "exploration",
        cov,
        vec![
            "a request is satisfiable iff the requested content window W (max_chunk_len - special tokens - first sequence for pairs; unbounded for max_chunk_len=None) is >= 1 and overlap < W; unsatisfiable requests may return nothing or panic and are only recorded".into(),
            "for pairs the chunked stream is the second sequence; the first sequence must appear (as a contiguous window, covered overall) in the chunks".into(),
            "token offsets of chunks are outside the statement; deviations are recorded as observations".into(),
            "every token of an input is distinct so window positions are unambiguous; repeated tokens would not change the slicing code, which is value-agnostic".into(),
        ],
    )
}

fn replay(ctx: Ctx, path: &std::path::Path) -> ! {
    let case = vp_core::read_replay_case(path);
    let model = if case["model"].as_str() == Some(ModelKind::Bpe.name()) { ModelKind::Bpe } else { ModelKind::WordPiece };
    let inp = &case["input"];
    let pair = inp["kind"].as_str() == Some("pair");
    let c = Case {
        model,
        cls: case["cls"].as_bool().unwrap_or(false),
        sep: case["sep"].as_bool().unwrap_or(false),
        n1: pair.then(|| inp["first_tokens"].as_u64().unwrap_or(0) as usize),
        n: if pair { inp["second_tokens"].as_u64().unwrap_or(0) } else { inp["tokens"].as_u64().unwrap_or(0) } as usize,
        limit: case["max_chunk_len"].as_u64().map(|x| x as usize),
        overlap: case["overlap"].as_u64().unwrap_or(0) as usize,
    };
    if c.n > MAX_SECOND || c.n1.unwrap_or(0) > MAX_FIRST {
        ctx.machinery("C29 replay: token counts beyond the harness vocabulary");
    }
    let subj = Subject::new(c.model, c.cls, c.sep, c.n1.unwrap_or(0), c.n);
    let out = check(&subj, &c);
    println!("C29 replay: {} -> {} signature(s); observations {:?}", case_json(&c), out.sigs.len(), out.obs);
    for (sig, detail) in out.sigs {
        ctx.violation(sig, case_json(&c), detail);
    }
    ctx.finish(
        "exploration",
        json!({"evaluations": 1, "distinct_nontrivial": 0, "rule": "replay of one case", "samples": [case], "exhaustive": false}),
        vec![],
    )
}
