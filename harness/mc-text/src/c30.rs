//! C30 - text normalizers keep an exact offset map.
//!
//! Box: every string of <= N symbols over a 14-symbol alphabet x every
//! normalizer chain of length 1..=D over 12 base normalizers.
//! Oracle (reading of DESIGN §2.4): normalized text is valid UTF-8; the map
//! has one entry per normalized byte; the map is non-decreasing; every entry
//! is <= input length; at every character-boundary position of the normalized
//! text the entry is a character boundary of the input.

use std::collections::HashMap;

use rten_text::models::WordPiece;
use rten_text::normalizers::{Bert, BertOptions, Normalizer, Replace, Sequence, Unicode};
use rten_text::pre_tokenizers;
use rten_text::tokenizer::{Tokenizer, TokenizerOptions};
use vp_core::{Ctx, Json, json};

use crate::util::{self, Shard};

// U+0323 (dot below, combining class 220) after U+0301 (acute, class 230) is a pair of
// combining marks in non-canonical order
pub const ALPHABET: [&str; 16] =
    ["a", "A", " ", "\t", "\0", "é", "e\u{301}", "Å", "ﬁ", "İ", "ß", "ǆ", "中", "😀", "\u{323}", "\u{301}"];

const BASE: [&str; 14] = [
    "bert(lowercase=false,strip_accents=false)",
    "bert(lowercase=true,strip_accents=false)",
    "bert(lowercase=false,strip_accents=true)",
    "bert(lowercase=true,strip_accents=true)",
    "nfc",
    "nfd",
    "nfkc",
    "nfkd",
    "replace(a->'')",
    "replace(a->bb)",
    "replace( +-> )",
    "replace(é->e)",
    "replace( ->▁)",
    "replace(a->é中)",
];

fn make_base(i: usize) -> Box<dyn Normalizer> {
    let bert = |lowercase, strip_accents| -> Box<dyn Normalizer> { Box::new(Bert::new(BertOptions { lowercase, strip_accents })) };
    let rep = |p: &str, c: &str| -> Box<dyn Normalizer> { Box::new(Replace::new(p, c.to_string()).expect("valid pattern")) };
    match i {
        0 => bert(false, false),
        1 => bert(true, false),
        2 => bert(false, true),
        3 => bert(true, true),
        4 => Box::new(Unicode::Nfc),
        5 => Box::new(Unicode::Nfd),
        6 => Box::new(Unicode::Nfkc),
        7 => Box::new(Unicode::Nfkd),
        8 => rep("a", ""),
        9 => rep("a", "bb"),
        10 => rep(" +", " "),
        11 => rep("é", "e"),
        12 => rep(" ", "▁"),
        13 => rep("a", "é中"),
        _ => unreachable!(),
    }
}

/// A chain of length 1 is the base normalizer itself; longer chains are a
/// `Sequence`.
fn make_chain(chain: &[usize]) -> Box<dyn Normalizer> {
    if chain.len() == 1 {
        make_base(chain[0])
    } else {
        Box::new(Sequence::from_vec(chain.iter().map(|&i| make_base(i)).collect()))
    }
}

fn chain_name(chain: &[usize]) -> Json {
    json!(chain.iter().map(|&i| BASE[i]).collect::<Vec<_>>())
}

fn chain_kind(chain: &[usize]) -> String {
    let kind = |i: usize| match i {
        0..=3 => "bert",
        4..=7 => "unicode",
        _ => "replace",
    };
    if chain.len() == 1 {
        kind(chain[0]).to_string()
    } else {
        // one tag for all sequences: a defect of a constituent also shows up
        // under the constituent's own tag in the single-normalizer sub-box
        "sequence".to_string()
    }
}

#[derive(Default)]
struct CaseOut {
    sigs: Vec<(String, String)>,
    changed: bool,
    len_changed: bool,
    strict_nonboundary: bool,
    norm_len: usize,
}

fn check(norm: &dyn Normalizer, chain: &[usize], s: &str) -> CaseOut {
    let mut out = CaseOut::default();
    let tag = format!("[{}]", chain_kind(chain));
    let (text, map) = match vp_core::catch(|| norm.normalize(s)) {
        Err(p) => {
            out.sigs.push((format!("Normalizer::normalize panicked {tag}"), p));
            return out;
        }
        Ok(Err(e)) => {
            out.sigs.push((format!("Normalizer::normalize returned an error {tag}"), format!("{e}")));
            return out;
        }
        Ok(Ok(r)) => r,
    };
    out.changed = text != s;
    out.len_changed = text.len() != s.len();
    out.norm_len = text.len();
    if std::str::from_utf8(text.as_bytes()).is_err() {
        out.sigs.push((format!("normalized text is not valid UTF-8 {tag}"), format!("{:?}", text.as_bytes())));
        return out;
    }
    let show = || format!("input {s:?} -> normalized {text:?}, offset map {map:?}");
    if map.len() != text.len() {
        out.sigs.push((
            format!("offset map length != normalized byte length {tag}"),
            format!("{} entries for {} bytes; {}", map.len(), text.len(), show()),
        ));
        return out;
    }
    if let Some(w) = map.windows(2).find(|w| w[0] > w[1]) {
        out.sigs.push((format!("offset map decreases {tag}"), format!("{} then {}; {}", w[0], w[1], show())));
    }
    if let Some(&o) = map.iter().find(|&&o| o > s.len()) {
        out.sigs.push((format!("offset map entry beyond the input {tag}"), format!("{o} > {}; {}", s.len(), show())));
        return out;
    }
    for (p, &o) in map.iter().enumerate() {
        let b = s.is_char_boundary(o);
        if text.is_char_boundary(p) {
            if !b {
                out.sigs.push((
                    format!("offset map entry at a character start of the normalized text is not a character boundary of the input {tag}"),
                    format!("position {p} -> {o}; {}", show()),
                ));
                break;
            }
        } else if !b {
            out.strict_nonboundary = true;
        }
    }
    out
}

fn case_json(chain: &[usize], s: &str) -> Json {
    json!({"input": util::show_str(s), "normalizers": chain_name(chain)})
}

fn chains(depth: usize) -> Vec<Vec<usize>> {
    let mut out: Vec<Vec<usize>> = Vec::new();
    let mut frontier: Vec<Vec<usize>> = vec![vec![]];
    for _ in 0..depth {
        let mut next = Vec::new();
        for c in &frontier {
            for i in 0..BASE.len() {
                let mut c2 = c.clone();
                c2.push(i);
                next.push(c2);
            }
        }
        out.extend(next.iter().cloned());
        frontier = next;
    }
    out
}

/// Observation only (outside the statement): how `Tokenizer::encode_str` uses
/// the map. A token's source offset should be `map[piece_start + offset_in_piece]`;
/// the code computes `piece_start + map[offset_in_piece]`.
fn probe_tokenizer(base: usize) -> Tokenizer {
    let mut vocab: HashMap<String, u32> = HashMap::new();
    vocab.insert("[UNK]".into(), 0);
    Tokenizer::new(WordPiece::from_vocab(vocab, Default::default()), TokenizerOptions::default())
        .with_pre_tokenizer(Box::new(pre_tokenizers::Bert::new()))
        .with_normalizer(make_base(base))
}

fn observe_encode_str(sh: &mut Shard, tok: &Tokenizer, norm: &dyn Normalizer, s: &str) {
    let Ok(Ok((text, map))) = vp_core::catch(|| norm.normalize(s)) else { return };
    match vp_core::catch(|| tok.encode(s, None)) {
        Ok(Ok(enc)) => {
            // expected: source offset of every non-blank piece start
            let pieces: Vec<usize> = {
                let pt = pre_tokenizers::Bert::new();
                use rten_text::pre_tokenizers::PreTokenizer;
                match pt.pre_tokenize(&text) {
                    Ok(ps) => ps
                        .iter()
                        .filter(|p| !p.trim().is_empty())
                        .map(|p| p.as_ptr() as usize - text.as_ptr() as usize)
                        .collect(),
                    Err(_) => return,
                }
            };
            // a map shorter than the text is reported by `check`; nothing to observe here
            let Some(want) = pieces.iter().map(|&p| map.get(p).copied()).collect::<Option<Vec<usize>>>() else { return };
            let got = &enc.token_offsets()[..enc.token_ids().len().min(enc.token_offsets().len())];
            sh.add("encode_str_probe_cases", 1);
            if got != want.as_slice() {
                sh.observe("outside the statement: Tokenizer::encode with a normalizer reports token offsets != map[piece start] (encode_str adds a normalized-space base offset to a mapped offset)");
                if got.iter().any(|&o| o > s.len() || !s.is_char_boundary(o)) {
                    sh.observe("outside the statement: Tokenizer::encode with a normalizer reports a token offset that is not a character boundary of the input");
                }
            }
        }
        Ok(Err(_)) => sh.observe("outside the statement: Tokenizer::encode with a normalizer returned an error"),
        Err(_) => sh.observe("outside the statement: Tokenizer::encode with a normalizer panicked"),
    }
}

pub fn run(ctx: Ctx) -> ! {
    if let Some(p) = ctx.replay.clone() {
        replay(ctx, &p);
    }
    // Complete sub-boxes (max symbols per string, chain lengths covered).
    let subs: Vec<(usize, std::ops::RangeInclusive<usize>)> = if ctx.tier.is_thorough() {
        vec![(5, 1..=1), (4, 2..=3)]
    } else {
        vec![(4, 1..=1), (3, 2..=2)]
    };
    let max_depth = subs.iter().map(|s| *s.1.end()).max().unwrap();
    let all_chains = chains(max_depth);
    // work items: (chain, max symbols for that chain)
    let work: Vec<(usize, usize)> = all_chains
        .iter()
        .enumerate()
        .filter_map(|(i, c)| subs.iter().find(|s| s.1.contains(&c.len())).map(|s| (i, s.0)))
        .collect();
    let expect: u64 = work.iter().map(|&(_, ms)| util::string_count(ALPHABET.len(), ms)).sum();
    let shards = vp_core::par::map(work.len(), |wi| {
        let (ci, max_syms) = work[wi];
        let probe_syms = max_syms.min(3);
        let chain = &all_chains[ci];
        let norm = make_chain(chain);
        let probe = (chain.len() == 1).then(|| probe_tokenizer(chain[0]));
        let mut sh = Shard::default();
        let (mut cases, mut changed, mut len_changed, mut strict) = (0u64, 0u64, 0u64, 0u64);
        let mut firsts: Vec<Option<usize>> = vec![None];
        firsts.extend((0..ALPHABET.len()).map(Some));
        for first in firsts {
            util::for_each_string(&ALPHABET, first, max_syms, |s, idx| {
                cases += 1;
                let out = check(norm.as_ref(), chain, s);
                if out.changed {
                    changed += 1;
                }
                if out.len_changed {
                    len_changed += 1;
                }
                if out.strict_nonboundary {
                    strict += 1;
                }
                if !out.sigs.is_empty() {
                    let again = check(norm.as_ref(), chain, s);
                    util::must_reproduce(
                        &out.sigs.iter().map(|x| x.0.clone()).collect::<Vec<_>>(),
                        &again.sigs.iter().map(|x| x.0.clone()).collect::<Vec<_>>(),
                        s,
                    );
                }
                if cases % 8 == 0 {
                    sh.class(format!("in_bytes={} out_bytes={} changed={}", s.len(), out.norm_len, out.changed));
                }
                if out.len_changed && idx.len() >= 2 {
                    sh.sample(1, || {
                        match vp_core::catch(|| norm.normalize(s)) {
                            Ok(Ok((t, m))) => json!({"case": case_json(chain, s), "normalized": util::show_str(&t), "offset_map": m}),
                            _ => json!({"case": case_json(chain, s), "normalized": "(normalize failed or panicked)"}),
                        }
                    });
                }
                for (sig, detail) in out.sigs {
                    sh.viol(sig, || case_json(chain, s), || detail);
                }
                if let Some(tok) = &probe {
                    if idx.len() <= probe_syms {
                        observe_encode_str(&mut sh, tok, norm.as_ref(), s);
                    }
                }
            });
        }
        sh.add("cases", cases);
        sh.add("cases_where_normalization_changed_the_text", changed);
        sh.add("cases_where_normalization_changed_the_byte_length", len_changed);
        sh.add("cases_with_non_boundary_entries_at_non_boundary_positions", strict);
        sh.add("normalizer_chains", 1);
        sh
    });
    let m = util::merge(&ctx, shards, 10);
    if m.get("cases") != expect {
        ctx.machinery(&format!("C30: enumerated {} cases, box has {}", m.get("cases"), expect));
    }
    if m.get("cases_where_normalization_changed_the_byte_length") == 0 && ctx.violation_count() == 0 {
        ctx.machinery("C30: vacuous - no normalization changed the byte length");
    }
    if m.get("cases_with_non_boundary_entries_at_non_boundary_positions") > 0 {
        ctx.observe_n(
            "strict reading only (not flagged, DESIGN §2.4): map entry inside an input character at a non-boundary position of the normalized text (identity byte maps of no-op Bert / unmatched Replace, pinned by in-tree tests)",
            m.get("cases_with_non_boundary_entries_at_non_boundary_positions"),
        );
    }
    let sub_json: Vec<Json> = subs
        .iter()
        .map(|(ms, r)| {
            let nchains: u64 = r.clone().map(|d| (BASE.len() as u64).pow(d as u32)).sum();
            json!({"max_symbols": ms, "strings": util::string_count(ALPHABET.len(), *ms), "chain_lengths": format!("{}..={}", r.start(), r.end()),
                   "chains": nchains, "cases": nchains * util::string_count(ALPHABET.len(), *ms)})
        })
        .collect();
    println!(
        "C30 summary: {} cases over {} normalizer chains, sub-boxes {}; {} changed text, {} changed byte length; {} violating",
        m.get("cases"), m.get("normalizer_chains"), Json::from(sub_json.clone()),
        m.get("cases_where_normalization_changed_the_text"), m.get("cases_where_normalization_changed_the_byte_length"), ctx.violation_count()
    );
    let cov = json!({
        "evaluations": m.get("cases"),
        "distinct_nontrivial": m.get("cases_where_normalization_changed_the_text"),
        "rule": "every (normalizer chain, string) of the box exactly once (distinct by construction); non-trivial = the normalized text differs from the input, so the map is not the identity",
        "exhaustive": true,
        "axes": {
            "alphabet_code_points": ALPHABET.iter().map(|s| s.chars().map(|c| format!("U+{:04X}", c as u32)).collect::<Vec<_>>().join("+")).collect::<Vec<_>>(),
            "base_normalizers": BASE,
            "sub_boxes": sub_json,
            "chains": work.len(),
        },
        "counters": m.counters_json(),
        "distinct_outcome_classes": m.classes.len(),
        "outcome_classes_sampled": m.classes.iter().take(12).collect::<Vec<_>>(),
        "samples": m.samples,
        "subject": "rten_text::normalizers::{Bert, Unicode, Replace, Sequence}::normalize",
    });
    ctx.finish(
        "exploration",
        cov,
        vec![
            "reading of DESIGN §2.4: map entries must be input character boundaries at character-boundary positions of the normalized text; entries at other positions are only required to be monotone and in range (the in-tree tests pin identity byte maps for non-ASCII text)".into(),
            "'normalized text is valid UTF-8' is guaranteed by the String type; it is re-checked on the bytes anyway".into(),
            "Replace patterns in the box never match the empty string".into(),
        ],
    )
}

fn replay(ctx: Ctx, path: &std::path::Path) -> ! {
    let case = vp_core::read_replay_case(path);
    let s = case["input"]["text"].as_str().unwrap_or("").to_string();
    let chain: Option<Vec<usize>> = case["normalizers"]
        .as_array()
        .map(|a| a.iter().map(|n| BASE.iter().position(|b| Some(*b) == n.as_str())).collect())
        .unwrap_or(None);
    let Some(chain) = chain.filter(|c| !c.is_empty()) else { ctx.machinery("C30 replay: unknown normalizer name") };
    let norm = make_chain(&chain);
    let out = check(norm.as_ref(), &chain, &s);
    println!("C30 replay: {} -> {} signature(s)", case, out.sigs.len());
    for (sig, detail) in out.sigs {
        ctx.violation(sig, case.clone(), detail);
    }
    ctx.finish(
        "exploration",
        json!({"evaluations": 1, "distinct_nontrivial": 0, "rule": "replay of one case", "samples": [case], "exhaustive": false}),
        vec![],
    )
}
