//! mc-text: bounded-exhaustive checks of the `rten-text` crate.
//!
//!   mc-text <C27|C28|C29|C30> [quick|thorough] [--replay <file>]
//!
//! C27 byte-level BPE round trip + offsets, C28 BPE merging vs. textbook BPE,
//! C29 chunked encoding (limits, windows, overlap, coverage), C30 normalizer
//! offset maps. Every check enumerates a stated finite box completely and
//! drives the real rten-text code through its public API.

mod c27;
mod c28;
mod c29;
mod c30;
mod refmodel;
mod util;

fn main() {
    let prop = std::env::args().nth(1).unwrap_or_default();
    match prop.as_str() {
        "C27" => c27::run(vp_core::Ctx::from_env("C27")),
        "C28" => c28::run(vp_core::Ctx::from_env("C28")),
        "C29" => c29::run(vp_core::Ctx::from_env("C29")),
        "C30" => c30::run(vp_core::Ctx::from_env("C30")),
        _ => vp_core::machinery_error("mc-text: unknown property (expected C27, C28, C29 or C30)"),
    }
}
