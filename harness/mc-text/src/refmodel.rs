//! Boring reference models, independent of rten-text.

/// GPT-2 `bytes_to_unicode()` written from the original `encoder.py`:
/// `bs = '!'..'~' + '¡'..'¬' + '®'..'ÿ'`, every other byte `b` (in increasing
/// order) is appended and mapped to `chr(256 + n)`.
///
/// Returns `(byte -> char, byte -> position in bs)`. The position is the token
/// id of the single-byte token in GPT-2's own `vocab.json`.
pub fn gpt2_byte_table() -> ([char; 256], [u32; 256]) {
    let mut bs: Vec<u32> = Vec::new();
    bs.extend(0x21..=0x7Eu32);
    bs.extend(0xA1..=0xACu32);
    bs.extend(0xAE..=0xFFu32);
    let mut cs: Vec<u32> = bs.clone();
    let mut n = 0u32;
    for b in 0..256u32 {
        if !bs.contains(&b) {
            bs.push(b);
            cs.push(256 + n);
            n += 1;
        }
    }
    let mut chars = ['\0'; 256];
    let mut pos = [0u32; 256];
    for (i, (&b, &c)) in bs.iter().zip(cs.iter()).enumerate() {
        chars[b as usize] = char::from_u32(c).unwrap();
        pos[b as usize] = i as u32;
    }
    (chars, pos)
}

/// Encode raw bytes in the printable GPT-2 alphabet.
pub fn enc_bytes(table: &[char; 256], bytes: &[u8]) -> String {
    bytes.iter().map(|&b| table[b as usize]).collect()
}

/// A merge table over interned symbols. Symbols `0..nbase` are the base
/// alphabet; every merge `(x, y)` produces the symbol whose string is
/// `str(x) + str(y)` (symbols are interned *by string*, so two different
/// pairs with the same concatenation produce the same symbol, exactly as a
/// string-keyed vocabulary does).
#[derive(Clone, Debug)]
pub struct MergeTable {
    pub syms: Vec<String>,
    pub nbase: usize,
    /// (left symbol, right symbol, result symbol), rank = index
    pub merges: Vec<(usize, usize, usize)>,
    /// some merge names a symbol that only a LATER (higher-rank) merge produces
    pub forward_refs: bool,
}

impl MergeTable {
    pub fn new(base: &[&str]) -> MergeTable {
        MergeTable { syms: base.iter().map(|s| s.to_string()).collect(), nbase: base.len(), merges: Vec::new(), forward_refs: false }
    }

    pub fn has_pair(&self, x: usize, y: usize) -> bool {
        self.merges.iter().any(|&(a, b, _)| a == x && b == y)
    }

    /// Append the merge (x, y); returns false if the pair is already listed.
    pub fn push(&mut self, x: usize, y: usize) -> bool {
        if self.has_pair(x, y) {
            return false;
        }
        let s = format!("{}{}", self.syms[x], self.syms[y]);
        let r = match self.syms.iter().position(|t| *t == s) {
            Some(p) => p,
            None => {
                self.syms.push(s);
                self.syms.len() - 1
            }
        };
        self.merges.push((x, y, r));
        true
    }

    /// Build from string pairs (replay); `None` if a part is not a base symbol
    /// or the result of an earlier merge, or a pair repeats.
    pub fn from_pairs(base: &[&str], pairs: &[(String, String)]) -> Option<MergeTable> {
        let mut t = MergeTable::new(base);
        for (a, b) in pairs {
            let x = t.syms.iter().position(|s| s == a)?;
            let y = t.syms.iter().position(|s| s == b)?;
            if !t.push(x, y) {
                return None;
            }
        }
        Some(t)
    }

    pub fn pairs(&self) -> Vec<(String, String)> {
        self.merges.iter().map(|&(x, y, _)| (self.syms[x].clone(), self.syms[y].clone())).collect()
    }

    /// rank/result lookup matrix
    pub fn matrix(&self) -> Vec<Vec<Option<(usize, usize)>>> {
        let n = self.syms.len();
        let mut m = vec![vec![None; n]; n];
        for (rank, &(x, y, r)) in self.merges.iter().enumerate() {
            m[x][y] = Some((rank, r));
        }
        m
    }

    /// true if two different merges produce the same string
    pub fn has_duplicate_result(&self) -> bool {
        for i in 0..self.merges.len() {
            for j in 0..i {
                if self.merges[i].2 == self.merges[j].2 {
                    return true;
                }
            }
        }
        false
    }
}

/// Reference BPE, reading 1 of the statement: repeatedly merge THE
/// lowest-ranked adjacent pair - the leftmost occurrence among equals - one
/// merge at a time, until no adjacent pair is in the table.
pub fn bpe_one_at_a_time(m: &[Vec<Option<(usize, usize)>>], input: &[usize]) -> (Vec<usize>, usize) {
    let mut t = input.to_vec();
    let mut nmerges = 0;
    loop {
        let mut best: Option<(usize, usize, usize)> = None; // rank, pos, result
        for i in 0..t.len().saturating_sub(1) {
            if let Some((rank, res)) = m[t[i]][t[i + 1]] {
                if best.is_none_or(|(br, _, _)| rank < br) {
                    best = Some((rank, i, res));
                }
            }
        }
        let Some((_, i, res)) = best else { break };
        t[i] = res;
        t.remove(i + 1);
        nmerges += 1;
    }
    (t, nmerges)
}

/// Reference BPE, reading 2 (GPT-2 `encoder.py` / Sennrich et al.): pick the
/// lowest-ranked pair present, replace all its non-overlapping occurrences in
/// one left-to-right pass, repeat.
pub fn bpe_all_occurrences(m: &[Vec<Option<(usize, usize)>>], input: &[usize]) -> (Vec<usize>, usize) {
    let mut t = input.to_vec();
    let mut nmerges = 0;
    loop {
        let mut best: Option<(usize, usize, usize, usize)> = None; // rank, x, y, result
        for i in 0..t.len().saturating_sub(1) {
            if let Some((rank, res)) = m[t[i]][t[i + 1]] {
                if best.is_none_or(|(br, _, _, _)| rank < br) {
                    best = Some((rank, t[i], t[i + 1], res));
                }
            }
        }
        let Some((_, x, y, res)) = best else { break };
        let mut out = Vec::with_capacity(t.len());
        let mut i = 0;
        while i < t.len() {
            if i + 1 < t.len() && t[i] == x && t[i + 1] == y {
                out.push(res);
                nmerges += 1;
                i += 2;
            } else {
                out.push(t[i]);
                i += 1;
            }
        }
        t = out;
    }
    (t, nmerges)
}

/// Every merge table with `0..=kmax` merges over `base`: each merge is a pair
/// of symbols that are base symbols or results of earlier merges, no pair
/// listed twice. Ordered by number of merges, then lexicographically by
/// (x, y) symbol indices, so the simplest tables come first.
pub fn all_tables(base: &[&str], kmax: usize) -> Vec<MergeTable> {
    let mut out = vec![MergeTable::new(base)];
    let mut frontier = out.clone();
    for _ in 0..kmax {
        let mut next = Vec::new();
        for t in &frontier {
            let n = t.syms.len();
            for x in 0..n {
                for y in 0..n {
                    let mut t2 = t.clone();
                    if t2.push(x, y) {
                        next.push(t2);
                    }
                }
            }
        }
        out.extend(next.iter().cloned());
        frontier = next;
    }
    out
}

/// Re-orderings of the merge lists of `tables` in which some merge refers to a symbol that
/// only a later merge produces (such lists are not generated by `all_tables`, but a
/// merges file can contain them). Tables with 2..=3 merges; every such permutation once.
pub fn forward_reference_tables(tables: &[MergeTable]) -> Vec<MergeTable> {
    let mut seen = std::collections::HashSet::new();
    let mut out = Vec::new();
    for t in tables {
        let k = t.merges.len();
        if !(2..=3).contains(&k) {
            continue;
        }
        for perm in crate::util::permutations(k) {
            let merges: Vec<(usize, usize, usize)> = perm.iter().map(|&i| t.merges[i]).collect();
            let forward = merges.iter().enumerate().any(|(i, &(x, y, _))| {
                [x, y].iter().any(|&s| s >= t.nbase && !merges[..i].iter().any(|m| m.2 == s))
            });
            if forward && seen.insert((t.syms.clone(), merges.clone())) {
                out.push(MergeTable { syms: t.syms.clone(), nbase: t.nbase, merges, forward_refs: true });
            }
        }
    }
    out
}

/// Windows of the canonical overlapping-chunk scheme (the one Hugging Face
/// `tokenizers` truncation-with-stride uses): window i starts at i*(w-o),
/// has length w clipped to n, and the last window is the first one that
/// reaches n. Requires `1 <= w`, `o < w`. `n == 0` gives no windows.
pub fn canonical_windows(n: usize, w: usize, o: usize) -> Vec<(usize, usize)> {
    assert!(w >= 1 && o < w);
    let mut out = Vec::new();
    if n == 0 {
        return out;
    }
    let stride = w - o;
    let mut start = 0usize;
    loop {
        let end = start.saturating_add(w).min(n);
        out.push((start, end));
        if end == n {
            break;
        }
        start += stride;
    }
    out
}
