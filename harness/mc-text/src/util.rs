//! Per-shard result collection with a deterministic merge.
//!
//! Every enumeration in this engine is sharded with `vp_core::par::map`. A
//! shard never talks to `Ctx` directly: it fills a [`Shard`], and the shards
//! are merged *in shard order* afterwards, so the replay artefact written for
//! a signature is always the first failing case in enumeration order, no
//! matter which thread ran which shard.

use std::collections::{BTreeMap, BTreeSet};

use vp_core::{Ctx, Json};

#[derive(Default)]
pub struct Shard {
    /// signature -> (first case, detail, number of cases)
    pub viols: BTreeMap<String, (Json, String, u64)>,
    pub cnt: BTreeMap<&'static str, u64>,
    pub obs: BTreeMap<String, u64>,
    pub samples: Vec<Json>,
    /// small outcome-class descriptors (for "distinct outcomes" in evidence)
    pub classes: BTreeSet<String>,
    /// engine-specific extra examples (C28: reading-ambiguous cases)
    pub ambiguous: Vec<Json>,
}

impl Shard {
    pub fn viol(&mut self, sig: String, case: impl FnOnce() -> Json, detail: impl FnOnce() -> String) {
        match self.viols.get_mut(&sig) {
            Some(e) => e.2 += 1,
            None => {
                self.viols.insert(sig, (case(), detail(), 1));
            }
        }
    }
    pub fn add(&mut self, k: &'static str, n: u64) {
        *self.cnt.entry(k).or_insert(0) += n;
    }
    pub fn observe(&mut self, k: &str) {
        match self.obs.get_mut(k) {
            Some(v) => *v += 1,
            None => {
                self.obs.insert(k.to_string(), 1);
            }
        }
    }
    pub fn sample(&mut self, cap: usize, f: impl FnOnce() -> Json) {
        if self.samples.len() < cap {
            self.samples.push(f());
        }
    }
    pub fn class(&mut self, c: String) {
        if self.classes.len() < 4096 {
            self.classes.insert(c);
        }
    }
}

pub struct Merged {
    pub cnt: BTreeMap<&'static str, u64>,
    pub samples: Vec<Json>,
    pub classes: BTreeSet<String>,
    pub ambiguous: Vec<Json>,
}

impl Merged {
    pub fn get(&self, k: &str) -> u64 {
        self.cnt.get(k).copied().unwrap_or(0)
    }
    pub fn counters_json(&self) -> Json {
        vp_core::json!(self.cnt)
    }
}

/// Merge shards in shard order into `ctx` (violations, observations) and
/// return the summed counters, a spread of samples and the outcome classes.
pub fn merge(ctx: &Ctx, shards: Vec<Shard>, sample_cap: usize) -> Merged {
    let mut cnt: BTreeMap<&'static str, u64> = BTreeMap::new();
    let mut classes = BTreeSet::new();
    let mut per_shard_samples: Vec<Vec<Json>> = Vec::new();
    let mut ambiguous = Vec::new();
    for sh in shards {
        if ambiguous.len() < 4 {
            ambiguous.extend(sh.ambiguous.iter().cloned());
        }
        for (sig, (case, detail, n)) in sh.viols {
            ctx.violation(sig.clone(), case, detail);
            for _ in 1..n {
                ctx.violation(sig.clone(), Json::Null, "");
            }
        }
        for (k, n) in sh.obs {
            ctx.observe_n(&k, n);
        }
        for (k, n) in sh.cnt {
            *cnt.entry(k).or_insert(0) += n;
        }
        classes.extend(sh.classes);
        per_shard_samples.push(sh.samples);
    }
    // round-robin over shards so the samples show different parts of the box
    let mut samples = Vec::new();
    let mut round = 0;
    while samples.len() < sample_cap {
        let mut any = false;
        for s in &per_shard_samples {
            if let Some(x) = s.get(round) {
                any = true;
                if samples.len() < sample_cap {
                    samples.push(x.clone());
                }
            }
        }
        if !any {
            break;
        }
        round += 1;
    }
    ambiguous.truncate(4);
    Merged { cnt, samples, classes, ambiguous }
}

/// All strings that are concatenations of at most `max_syms` symbols of
/// `alpha`, whose first symbol is `first` (or only the empty string when
/// `first` is `None`), shortest first, then in odometer order.
pub fn for_each_string(alpha: &[&str], first: Option<usize>, max_syms: usize, mut f: impl FnMut(&str, &[usize])) {
    let Some(first) = first else {
        f("", &[]);
        return;
    };
    if max_syms == 0 {
        return;
    }
    let mut buf = String::new();
    for len in 1..=max_syms {
        let mut idx = vec![0usize; len];
        idx[0] = first;
        loop {
            buf.clear();
            for &i in &idx {
                buf.push_str(alpha[i]);
            }
            f(&buf, &idx);
            // advance positions 1..len (position 0 is pinned)
            let mut d = len;
            let mut done = false;
            loop {
                if d == 1 {
                    done = true;
                    break;
                }
                d -= 1;
                idx[d] += 1;
                if idx[d] < alpha.len() {
                    break;
                }
                idx[d] = 0;
            }
            if done {
                break;
            }
        }
    }
}

/// Number of strings enumerated by `for_each_string` over all shards
/// (`None` + every first symbol).
pub fn string_count(alpha_len: usize, max_syms: usize) -> u64 {
    let mut total = 1u64;
    let mut p = 1u64;
    for _ in 0..max_syms {
        p *= alpha_len as u64;
        total += p;
    }
    total
}

/// JSON-safe rendering of a string (escapes are done by serde; this adds the
/// code points so that combining marks and control characters are readable).
pub fn show_str(s: &str) -> Json {
    let cps: Vec<String> = s.chars().map(|c| format!("U+{:04X}", c as u32)).collect();
    vp_core::json!({"text": s, "code_points": cps})
}

/// Deterministic double check demanded by DESIGN §1.2: a failing case must
/// fail identically when re-run, otherwise it is a machinery error.
pub fn must_reproduce(first: &[String], again: &[String], what: &str) {
    if first != again {
        vp_core::machinery_error(&format!(
            "uncontrolled nondeterminism: case {what} gave signatures {first:?} then {again:?}"
        ));
    }
}

/// All permutations of 0..n (n <= 4), identity first.
pub fn permutations(n: usize) -> Vec<Vec<usize>> {
    fn go(cur: &mut Vec<usize>, used: &mut Vec<bool>, n: usize, out: &mut Vec<Vec<usize>>) {
        if cur.len() == n {
            out.push(cur.clone());
            return;
        }
        for i in 0..n {
            if !used[i] {
                used[i] = true;
                cur.push(i);
                go(cur, used, n, out);
                cur.pop();
                used[i] = false;
            }
        }
    }
    let mut out = Vec::new();
    go(&mut Vec::new(), &mut vec![false; n], n, &mut out);
    out
}
