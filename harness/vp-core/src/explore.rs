//! Explicit-state breadth-first exploration of operation histories.
//!
//! A state is identified by the history that reaches it: live objects of the
//! system under test are rarely `Clone`, so `run(history)` re-executes the whole
//! history on a fresh object and returns a canonical key of the state reached
//! (or `None` to prune: the history ended, was rejected, or a violation was
//! already reported for it). BFS order means the first counterexample found
//! for a signature has the fewest steps.

use std::collections::HashSet;
use std::hash::Hash;

#[derive(Clone, Copy, Debug, Default)]
pub struct Stats {
    /// distinct canonical keys seen (including the root)
    pub states: u64,
    /// histories executed on the implementation (= edges tried)
    pub transitions: u64,
    /// complete histories executed (every one runs on the real code)
    pub traces: u64,
    pub max_depth: u64,
    /// histories pruned by `run` returning None
    pub pruned: u64,
}

impl Stats {
    pub fn merge(&mut self, o: &Stats) {
        self.states += o.states;
        self.transitions += o.transitions;
        self.traces += o.traces;
        self.pruned += o.pruned;
        self.max_depth = self.max_depth.max(o.max_depth);
    }
}

/// BFS from the empty history.
///
/// * `enabled(history)` lists the actions to try next (simplest first).
/// * `run(history)` executes the history on the real system (and the
///   reference model) and returns the canonical key of the reached state.
/// * `dedupe`: when false every history is expanded (exhaustive over
///   histories, not only over states) — used for small alphabets where the
///   state key would be too coarse to trust.
pub fn bfs<A: Clone, K: Hash + Eq>(
    max_depth: usize,
    dedupe: bool,
    mut enabled: impl FnMut(&[A]) -> Vec<A>,
    mut run: impl FnMut(&[A]) -> Option<K>,
) -> Stats {
    let mut stats = Stats::default();
    let mut seen: HashSet<K> = HashSet::new();
    let mut frontier: Vec<Vec<A>> = Vec::new();
    stats.traces += 1;
    match run(&[]) {
        Some(k) => {
            seen.insert(k);
            stats.states += 1;
            frontier.push(Vec::new());
        }
        None => {
            stats.pruned += 1;
            return stats;
        }
    }
    for depth in 0..max_depth {
        let mut next = Vec::new();
        for hist in &frontier {
            for a in enabled(hist) {
                let mut h = hist.clone();
                h.push(a);
                stats.transitions += 1;
                stats.traces += 1;
                match run(&h) {
                    None => stats.pruned += 1,
                    Some(k) => {
                        stats.max_depth = stats.max_depth.max(depth as u64 + 1);
                        if dedupe {
                            if seen.insert(k) {
                                stats.states += 1;
                                next.push(h);
                            }
                        } else {
                            if seen.insert(k) {
                                stats.states += 1;
                            }
                            next.push(h);
                        }
                    }
                }
            }
        }
        if next.is_empty() {
            break;
        }
        frontier = next;
    }
    stats
}
