//! Crash- and hang-isolating worker processes.
//!
//! The parent re-executes its own binary with `--worker <name>`; it writes one
//! case per line (a JSON document) to the child's stdin and reads one result
//! line per case from the child's stdout. A child that dies (abort, signal,
//! allocation failure) or does not answer within the watchdog is reported as
//! that outcome *for the case it was working on* and a fresh child continues
//! with the next case.

use std::io::{BufRead, BufReader, Write};
use std::process::{Child, ChildStdin, Command, Stdio};
use std::sync::mpsc;
use std::time::Duration;

use crate::Json;

#[derive(Debug, Clone, PartialEq)]
pub enum Outcome {
    /// the worker answered with this JSON line
    Answer(Json),
    /// the worker process died while handling the case (signal / abort / exit)
    Died(String),
    /// no answer within the watchdog
    Timeout,
}

pub struct Worker {
    name: String,
    child: Option<(Child, ChildStdin, mpsc::Receiver<String>)>,
    watchdog: Duration,
    mem_limit_bytes: u64,
    pub restarts: u64,
}

impl Worker {
    pub fn new(name: &str, watchdog: Duration, mem_limit_bytes: u64) -> Worker {
        Worker { name: name.to_string(), child: None, watchdog, mem_limit_bytes, restarts: 0 }
    }

    fn spawn(&mut self) {
        let exe = std::env::current_exe().expect("current_exe");
        let mut cmd = Command::new(exe);
        cmd.arg("--worker")
            .arg(&self.name)
            .env("VERIF_WORKER_MEM", self.mem_limit_bytes.to_string())
            .stdin(Stdio::piped())
            .stdout(Stdio::piped())
            .stderr(Stdio::null());
        let mut child = cmd.spawn().expect("spawn worker");
        let stdin = child.stdin.take().unwrap();
        let stdout = child.stdout.take().unwrap();
        let (tx, rx) = mpsc::channel();
        std::thread::spawn(move || {
            let r = BufReader::new(stdout);
            for line in r.lines() {
                match line {
                    Ok(l) => {
                        if tx.send(l).is_err() {
                            break;
                        }
                    }
                    Err(_) => break,
                }
            }
        });
        self.child = Some((child, stdin, rx));
    }

    fn kill(&mut self) -> String {
        if let Some((mut child, stdin, _rx)) = self.child.take() {
            drop(stdin);
            let _ = child.kill();
            match child.wait() {
                Ok(st) => format!("{st}"),
                Err(e) => format!("wait failed: {e}"),
            }
        } else {
            String::new()
        }
    }

    pub fn run(&mut self, case: &Json) -> Outcome {
        if self.child.is_none() {
            self.spawn();
        }
        let line = serde_json::to_string(case).unwrap();
        {
            let (_, stdin, _) = self.child.as_mut().unwrap();
            if writeln!(stdin, "{line}").and_then(|_| stdin.flush()).is_err() {
                // child already dead from a previous case? restart once
                self.kill();
                self.restarts += 1;
                self.spawn();
                let (_, stdin, _) = self.child.as_mut().unwrap();
                let _ = writeln!(stdin, "{line}");
                let _ = stdin.flush();
            }
        }
        let res = {
            let (_, _, rx) = self.child.as_mut().unwrap();
            rx.recv_timeout(self.watchdog)
        };
        match res {
            Ok(l) => match serde_json::from_str::<Json>(&l) {
                Ok(v) => Outcome::Answer(v),
                Err(_) => Outcome::Answer(Json::String(l)),
            },
            Err(mpsc::RecvTimeoutError::Timeout) => {
                self.kill();
                self.restarts += 1;
                Outcome::Timeout
            }
            Err(mpsc::RecvTimeoutError::Disconnected) => {
                let (child, _, _) = self.child.as_mut().unwrap();
                let status = match child.wait() {
                    Ok(st) => format!("{st}"),
                    Err(e) => format!("{e}"),
                };
                self.child = None;
                self.restarts += 1;
                Outcome::Died(status)
            }
        }
    }
}

impl Drop for Worker {
    fn drop(&mut self) {
        self.kill();
    }
}

/// If this process was started as a worker, return the worker name.
pub fn worker_name() -> Option<String> {
    let args: Vec<String> = std::env::args().collect();
    let pos = args.iter().position(|a| a == "--worker")?;
    args.get(pos + 1).cloned()
}

/// Worker main loop: apply the memory limit, then answer one JSON line per
/// input line. `handle` must not print to stdout.
pub fn worker_loop(mut handle: impl FnMut(&Json) -> Json) -> ! {
    if let Some(lim) = std::env::var("VERIF_WORKER_MEM").ok().and_then(|s| s.parse::<u64>().ok()) {
        if lim > 0 {
            unsafe {
                let rl = libc::rlimit { rlim_cur: lim, rlim_max: lim };
                libc::setrlimit(libc::RLIMIT_AS, &rl);
            }
        }
    }
    std::panic::set_hook(Box::new(|_| {}));
    let stdin = std::io::stdin();
    let stdout = std::io::stdout();
    for line in stdin.lock().lines() {
        let Ok(line) = line else { break };
        let case: Json = match serde_json::from_str(&line) {
            Ok(c) => c,
            Err(_) => Json::Null,
        };
        let ans = handle(&case);
        let mut o = stdout.lock();
        let _ = writeln!(o, "{}", serde_json::to_string(&ans).unwrap());
        let _ = o.flush();
    }
    std::process::exit(0);
}

/// Run all `cases` on `nworkers` isolated workers; `on_result(index, outcome)`
/// is called from worker-driver threads.
pub fn run_all(
    name: &str,
    cases: &[Json],
    nworkers: usize,
    watchdog: Duration,
    mem_limit_bytes: u64,
    on_result: impl Fn(usize, &Json, Outcome) + Sync,
) -> u64 {
    use std::sync::atomic::{AtomicU64, AtomicUsize, Ordering};
    let next = AtomicUsize::new(0);
    let restarts = AtomicU64::new(0);
    std::thread::scope(|s| {
        for _ in 0..nworkers.max(1) {
            s.spawn(|| {
                let mut w = Worker::new(name, watchdog, mem_limit_bytes);
                loop {
                    let i = next.fetch_add(1, Ordering::Relaxed);
                    if i >= cases.len() {
                        break;
                    }
                    let out = w.run(&cases[i]);
                    on_result(i, &cases[i], out);
                }
                restarts.fetch_add(w.restarts, Ordering::Relaxed);
            });
        }
    });
    restarts.load(Ordering::Relaxed)
}
