//! Shared plumbing for the bounded-exhaustive checkers in /verif.
//!
//! * [`Ctx`]: per-run context (property id, tier, seed), violation collection,
//!   known-finding matching, replay artefacts, evidence writer, exit codes.
//! * [`explore`]: explicit-state BFS over operation histories of a live object.
//! * [`par`]: deterministic sharding of an enumeration over worker threads.
//! * [`isolate`]: crash/timeout-isolating worker processes.
//! * [`odometer`]: mixed-radix enumeration helper.
//!
//! Exit codes of an engine: 0 = property held on everything explored (known
//! findings are printed, not failed), 1 = at least one unlisted violation,
//! 2 = machinery error (never a verdict).

pub mod explore;
pub mod isolate;
pub mod odometer;
pub mod par;

pub use serde_json::{self, Value as Json, json};

use std::collections::BTreeMap;
use std::io::Write;
use std::path::{Path, PathBuf};
use std::sync::Mutex;
use std::time::Instant;

#[derive(Clone, Copy, Debug, PartialEq, Eq)]
pub enum Tier {
    Quick,
    Thorough,
}

impl Tier {
    pub fn name(self) -> &'static str {
        match self {
            Tier::Quick => "quick",
            Tier::Thorough => "thorough",
        }
    }
    pub fn is_thorough(self) -> bool {
        self == Tier::Thorough
    }
    /// Pick a bound by tier.
    pub fn pick<T>(self, quick: T, thorough: T) -> T {
        match self {
            Tier::Quick => quick,
            Tier::Thorough => thorough,
        }
    }
}

/// One violating case. `signature` identifies the *class* of the failure
/// (call site + discriminating input features); it is what known findings
/// are matched on, so it must be specific enough that a different defect of
/// the same property gets a different signature.
#[derive(Clone, Debug)]
pub struct Violation {
    pub signature: String,
    pub case: Json,
    pub detail: String,
}

struct SigBucket {
    first: Violation,
    count: u64,
}

#[derive(Clone, Debug)]
struct KnownFinding {
    property: String,
    signature: String,
    what: String,
    status: String,
}

pub struct Ctx {
    pub prop: String,
    pub tier: Tier,
    pub seed: u64,
    pub replay: Option<PathBuf>,
    pub extra_args: Vec<String>,
    start: Instant,
    verif_dir: PathBuf,
    buckets: Mutex<BTreeMap<String, SigBucket>>,
    observations: Mutex<BTreeMap<String, u64>>,
}

fn verif_dir() -> PathBuf {
    if let Ok(d) = std::env::var("VERIF_DIR") {
        return PathBuf::from(d);
    }
    PathBuf::from("/verif")
}

impl Ctx {
    /// Parse `<engine> <property> [quick|thorough] [--replay <file>] [extra...]`.
    /// Tier may also come from VERIF_TIER; seed from VERIF_SEED.
    pub fn from_env(prop: &str) -> Ctx {
        let args: Vec<String> = std::env::args().skip(1).collect();
        let mut tier = match std::env::var("VERIF_TIER").ok().as_deref() {
            Some("thorough") => Tier::Thorough,
            _ => Tier::Quick,
        };
        let mut replay = None;
        let mut extra = Vec::new();
        let mut i = 0;
        while i < args.len() {
            match args[i].as_str() {
                "quick" => tier = Tier::Quick,
                "thorough" => tier = Tier::Thorough,
                "--replay" => {
                    i += 1;
                    replay = args.get(i).map(PathBuf::from);
                }
                a if a == prop => {}
                a => extra.push(a.to_string()),
            }
            i += 1;
        }
        let seed = std::env::var("VERIF_SEED")
            .ok()
            .and_then(|s| s.parse::<i64>().ok())
            .unwrap_or(0) as u64;
        // Silence the default panic hook: engines classify panics themselves
        // through catch_unwind and millions of backtraces would drown output.
        if std::env::var("VERIF_PANIC_VERBOSE").is_err() {
            std::panic::set_hook(Box::new(|_| {}));
        }
        Ctx {
            prop: prop.to_string(),
            tier,
            seed,
            replay,
            extra_args: extra,
            start: Instant::now(),
            verif_dir: verif_dir(),
            buckets: Mutex::new(BTreeMap::new()),
            observations: Mutex::new(BTreeMap::new()),
        }
    }

    pub fn elapsed_s(&self) -> f64 {
        self.start.elapsed().as_secs_f64()
    }

    /// Record a violation. Thread-safe. Only the first case per signature is
    /// kept as a replay artefact (enumerations are ordered simplest-first, and
    /// shards are merged in shard order by the callers that care).
    pub fn violation(&self, signature: impl Into<String>, case: Json, detail: impl Into<String>) {
        let signature = signature.into();
        let mut b = self.buckets.lock().unwrap();
        match b.get_mut(&signature) {
            Some(bucket) => bucket.count += 1,
            None => {
                b.insert(
                    signature.clone(),
                    SigBucket {
                        first: Violation {
                            signature,
                            case,
                            detail: detail.into(),
                        },
                        count: 1,
                    },
                );
            }
        }
    }

    /// Record a non-verdict observation (e.g. "panicked on documented-panic API").
    pub fn observe(&self, what: &str) {
        *self
            .observations
            .lock()
            .unwrap()
            .entry(what.to_string())
            .or_insert(0) += 1;
    }

    pub fn observe_n(&self, what: &str, n: u64) {
        *self
            .observations
            .lock()
            .unwrap()
            .entry(what.to_string())
            .or_insert(0) += n;
    }

    /// Serialise the violations collected so far (used by child processes
    /// that explore a sub-box under a different process-wide configuration).
    pub fn export_violations(&self) -> Json {
        let b = self.buckets.lock().unwrap();
        Json::Array(
            b.values()
                .map(|x| json!({"signature": x.first.signature, "case": x.first.case, "detail": x.first.detail, "count": x.count}))
                .collect(),
        )
    }

    /// Merge violations exported by a child process.
    pub fn import_violations(&self, v: &Json) {
        for e in v.as_array().cloned().unwrap_or_default() {
            let n = e["count"].as_u64().unwrap_or(1);
            for _ in 0..n.min(1) {
                self.violation(e["signature"].as_str().unwrap_or("?"), e["case"].clone(), e["detail"].as_str().unwrap_or(""));
            }
            if n > 1 {
                let mut b = self.buckets.lock().unwrap();
                if let Some(bk) = b.get_mut(e["signature"].as_str().unwrap_or("?")) {
                    bk.count += n - 1;
                }
            }
        }
    }

    pub fn violation_count(&self) -> u64 {
        self.buckets.lock().unwrap().values().map(|b| b.count).sum()
    }

    fn load_known(&self) -> Vec<KnownFinding> {
        // VERIF_KNOWN_FINDINGS is a development aid only; ./check never sets it.
        let path = std::env::var("VERIF_KNOWN_FINDINGS")
            .map(PathBuf::from)
            .unwrap_or_else(|_| self.verif_dir.join("known_findings.json"));
        let Ok(text) = std::fs::read_to_string(&path) else {
            return Vec::new();
        };
        let v: Json = match serde_json::from_str(&text) {
            Ok(v) => v,
            Err(e) => machinery_error(&format!("known_findings.json unreadable: {e}")),
        };
        let mut out = Vec::new();
        for e in v["findings"].as_array().cloned().unwrap_or_default() {
            out.push(KnownFinding {
                property: e["property"].as_str().unwrap_or("").to_string(),
                signature: e["signature"].as_str().unwrap_or("").to_string(),
                what: e["what"].as_str().unwrap_or("").to_string(),
                status: e["status"].as_str().unwrap_or("known").to_string(),
            });
        }
        out
    }

    /// Machinery-level failure (vacuity guard tripped, harness inconsistency).
    pub fn machinery(&self, msg: &str) -> ! {
        machinery_error(msg)
    }

    /// Write evidence + replay artefacts, print verdict lines, exit.
    ///
    /// `level` is the MANIFEST category; `coverage` must carry that level's keys.
    pub fn finish(self, level: &str, mut coverage: Json, assumptions: Vec<String>) -> ! {
        let known = self.load_known();
        let buckets = self.buckets.into_inner().unwrap();
        let observations = self.observations.into_inner().unwrap();
        let replay_dir = self.verif_dir.join("replays").join(&self.prop);
        let mut unlisted = 0u64;
        let mut total = 0u64;
        let mut known_hits = Vec::new();
        let mut viol_summ = Vec::new();
        let stdout = std::io::stdout();
        let mut out = stdout.lock();
        for (sig, b) in &buckets {
            total += b.count;
            let listed = known
                .iter()
                .find(|k| k.property == self.prop && k.status == "known" && k.signature == *sig);
            if let Some(k) = listed {
                let _ = writeln!(
                    out,
                    "KNOWN-FINDING: property={} {} [signature={}; {} case(s) this run]",
                    self.prop, k.what, sig, b.count
                );
                known_hits.push(json!({"signature": sig, "cases": b.count, "first_case": b.first.case}));
                continue;
            }
            unlisted += b.count;
            let _ = std::fs::create_dir_all(&replay_dir);
            let fname = format!("{}.json", sanitize(sig));
            let path = replay_dir.join(fname);
            let art = json!({
                "property": self.prop,
                "signature": sig,
                "case": b.first.case,
                "detail": b.first.detail,
                "cases_with_this_signature": b.count,
                "replay": format!("cd /verif && ./check {} --replay {}", self.prop, path.display()),
            });
            if let Err(e) = std::fs::write(&path, serde_json::to_string_pretty(&art).unwrap()) {
                machinery_error(&format!("cannot write replay {}: {e}", path.display()));
            }
            let _ = writeln!(out, "VIOLATION property={} replay={}", self.prop, path.display());
            let _ = writeln!(out, "  signature: {sig}");
            let _ = writeln!(out, "  detail: {}", truncate(&b.first.detail, 600));
            viol_summ.push(json!({"signature": sig, "cases": b.count, "replay": path.display().to_string()}));
        }
        if let Some(obj) = coverage.as_object_mut() {
            if !observations.is_empty() {
                obj.insert("observations".into(), json!(observations));
            }
            if !known_hits.is_empty() {
                obj.insert("known_findings_reproduced".into(), json!(known_hits));
            }
            if !viol_summ.is_empty() {
                obj.insert("violations_by_signature".into(), json!(viol_summ));
            }
        }
        let wall = self.start.elapsed().as_secs_f64();
        let ev = json!({
            "property_id": self.prop,
            "tier": self.tier.name(),
            "seed": self.seed as i64,
            "level": level,
            "coverage": coverage,
            "assumptions": assumptions,
            "wall_s": (wall * 1000.0).round() / 1000.0,
            "violations": unlisted as i64,
            "violations_total_including_known": total as i64,
        });
        if self.replay.is_none() {
            let evdir = self.verif_dir.join("evidence");
            let _ = std::fs::create_dir_all(&evdir);
            let evpath = evdir.join(format!("{}.json", self.prop));
            if let Err(e) = std::fs::write(&evpath, serde_json::to_string_pretty(&ev).unwrap()) {
                machinery_error(&format!("cannot write evidence: {e}"));
            }
        }
        let _ = writeln!(
            out,
            "{} {} tier={} wall={:.1}s violations={} (known={})",
            if unlisted == 0 { "OK" } else { "FAIL" },
            self.prop,
            self.tier.name(),
            wall,
            unlisted,
            total - unlisted
        );
        let _ = out.flush();
        std::process::exit(if unlisted == 0 { 0 } else { 1 });
    }

    pub fn verif_path(&self, rel: &str) -> PathBuf {
        self.verif_dir.join(rel)
    }
}

pub fn machinery_error(msg: &str) -> ! {
    eprintln!("MACHINERY-ERROR: {msg}");
    std::process::exit(2);
}

pub fn sanitize(s: &str) -> String {
    let mut o: String = s
        .chars()
        .map(|c| if c.is_ascii_alphanumeric() || c == '-' || c == '_' || c == '.' { c } else { '_' })
        .collect();
    if o.len() > 120 {
        // keep it unique with a cheap hash suffix
        let h = fnv(s.as_bytes());
        o.truncate(100);
        o.push_str(&format!("_{h:016x}"));
    }
    o
}

pub fn truncate(s: &str, n: usize) -> String {
    if s.len() <= n {
        s.to_string()
    } else {
        let mut end = n;
        while !s.is_char_boundary(end) {
            end -= 1;
        }
        format!("{}…", &s[..end])
    }
}

pub fn fnv(bytes: &[u8]) -> u64 {
    let mut h: u64 = 0xcbf29ce484222325;
    for b in bytes {
        h ^= *b as u64;
        h = h.wrapping_mul(0x100000001b3);
    }
    h
}

/// Read the `case` field of a replay artefact.
pub fn read_replay_case(path: &Path) -> Json {
    let text = std::fs::read_to_string(path)
        .unwrap_or_else(|e| machinery_error(&format!("cannot read replay {}: {e}", path.display())));
    let v: Json = serde_json::from_str(&text)
        .unwrap_or_else(|e| machinery_error(&format!("bad replay json: {e}")));
    v["case"].clone()
}

/// Run a closure, turning a panic into `Err(message)`.
pub fn catch<R>(f: impl FnOnce() -> R) -> Result<R, String> {
    match std::panic::catch_unwind(std::panic::AssertUnwindSafe(f)) {
        Ok(r) => Ok(r),
        Err(e) => {
            if let Some(s) = e.downcast_ref::<&str>() {
                Err((*s).to_string())
            } else if let Some(s) = e.downcast_ref::<String>() {
                Err(s.clone())
            } else {
                Err("<non-string panic>".to_string())
            }
        }
    }
}

/// Small bounded sample collector: keeps the first `cap` pushed samples.
pub struct Samples {
    cap: usize,
    items: Mutex<Vec<Json>>,
}

impl Samples {
    pub fn new(cap: usize) -> Self {
        Samples { cap, items: Mutex::new(Vec::new()) }
    }
    pub fn push(&self, f: impl FnOnce() -> Json) {
        let mut g = self.items.lock().unwrap();
        if g.len() < self.cap {
            g.push(f());
        }
    }
    pub fn take(&self) -> Vec<Json> {
        std::mem::take(&mut *self.items.lock().unwrap())
    }
}

/// Named atomic counters for coverage reporting.
#[derive(Default)]
pub struct Counters {
    map: Mutex<BTreeMap<String, u64>>,
}

impl Counters {
    pub fn new() -> Self {
        Self::default()
    }
    pub fn add(&self, key: &str, n: u64) {
        *self.map.lock().unwrap().entry(key.to_string()).or_insert(0) += n;
    }
    pub fn merge(&self, local: &BTreeMap<String, u64>) {
        let mut g = self.map.lock().unwrap();
        for (k, v) in local {
            *g.entry(k.clone()).or_insert(0) += v;
        }
    }
    pub fn get(&self, key: &str) -> u64 {
        self.map.lock().unwrap().get(key).copied().unwrap_or(0)
    }
    pub fn to_json(&self) -> Json {
        json!(*self.map.lock().unwrap())
    }
}
