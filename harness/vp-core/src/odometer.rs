//! Mixed-radix odometer: enumerate every point of a finite box in a fixed order.

/// Iterate over all index vectors `i` with `i[d] < radices[d]`, last axis fastest.
pub struct Odometer {
    radices: Vec<usize>,
    cur: Vec<usize>,
    done: bool,
}

impl Odometer {
    pub fn new(radices: &[usize]) -> Self {
        let done = radices.iter().any(|&r| r == 0);
        Odometer { radices: radices.to_vec(), cur: vec![0; radices.len()], done }
    }
    pub fn total(radices: &[usize]) -> u128 {
        radices.iter().map(|&r| r as u128).product()
    }
}

impl Iterator for Odometer {
    type Item = Vec<usize>;
    fn next(&mut self) -> Option<Vec<usize>> {
        if self.done {
            return None;
        }
        let out = self.cur.clone();
        let mut d = self.radices.len();
        loop {
            if d == 0 {
                self.done = true;
                break;
            }
            d -= 1;
            self.cur[d] += 1;
            if self.cur[d] < self.radices[d] {
                break;
            }
            self.cur[d] = 0;
        }
        Some(out)
    }
}

/// All sequences of length exactly `len` over `0..alphabet`.
pub fn sequences(alphabet: usize, len: usize) -> Odometer {
    Odometer::new(&vec![alphabet; len])
}

/// All permutations of 0..n in lexicographic order.
pub fn permutations(n: usize) -> Vec<Vec<usize>> {
    fn rec(n: usize, cur: &mut Vec<usize>, used: &mut Vec<bool>, out: &mut Vec<Vec<usize>>) {
        if cur.len() == n {
            out.push(cur.clone());
            return;
        }
        for i in 0..n {
            if !used[i] {
                used[i] = true;
                cur.push(i);
                rec(n, cur, used, out);
                cur.pop();
                used[i] = false;
            }
        }
    }
    let mut out = Vec::new();
    rec(n, &mut Vec::new(), &mut vec![false; n], &mut out);
    out
}

/// All subsets of 0..n as bitmasks in increasing order.
pub fn subsets(n: usize) -> impl Iterator<Item = Vec<usize>> {
    (0u64..(1u64 << n)).map(move |m| (0..n).filter(|i| m >> i & 1 == 1).collect())
}
