//! Deterministic sharding of an enumeration over worker threads.

use std::sync::atomic::{AtomicUsize, Ordering};

pub fn threads() -> usize {
    std::env::var("VERIF_THREADS")
        .ok()
        .and_then(|s| s.parse().ok())
        .unwrap_or_else(|| std::thread::available_parallelism().map(|n| n.get()).unwrap_or(4))
        .max(1)
}

/// Run `f(item_index)` for every index in `0..n` on a pool of threads
/// (work-stealing by atomic counter), returning results in index order.
/// Which thread runs which item does not influence any result because each
/// item is self-contained.
pub fn map<R: Send>(n: usize, f: impl Fn(usize) -> R + Sync) -> Vec<R> {
    let next = AtomicUsize::new(0);
    let nthreads = threads().min(n.max(1));
    let mut slots: Vec<Option<R>> = (0..n).map(|_| None).collect();
    let slots_ptr = SendPtr(slots.as_mut_ptr());
    std::thread::scope(|s| {
        for _ in 0..nthreads {
            let f = &f;
            let next = &next;
            let slots_ptr = &slots_ptr;
            s.spawn(move || {
                loop {
                    let i = next.fetch_add(1, Ordering::Relaxed);
                    if i >= n {
                        break;
                    }
                    // A panic here is a defect of the engine (calls into the subject are
                    // wrapped by the engines themselves): report it as a machinery error,
                    // never as a verdict, and say where it came from.
                    let r = match std::panic::catch_unwind(std::panic::AssertUnwindSafe(|| f(i))) {
                        Ok(r) => r,
                        Err(p) => {
                            let msg = p.downcast_ref::<String>().cloned().or_else(|| p.downcast_ref::<&str>().map(|s| s.to_string())).unwrap_or_default();
                            eprintln!("MACHINERY-ERROR: uncaught panic inside the engine (shard {i}): {msg}");
                            std::process::exit(2);
                        }
                    };
                    // SAFETY: each index is claimed by exactly one thread.
                    unsafe { *slots_ptr.0.add(i) = Some(r) };
                }
            });
        }
    });
    slots.into_iter().map(|o| o.expect("shard not run")).collect()
}

struct SendPtr<T>(*mut T);
unsafe impl<T> Sync for SendPtr<T> {}
unsafe impl<T> Send for SendPtr<T> {}

/// Like [`map`] but with a larger stack per worker (deep recursion in subjects).
pub fn for_each(n: usize, f: impl Fn(usize) + Sync) {
    let _ = map(n, |i| f(i));
}
