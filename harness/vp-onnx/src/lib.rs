//! Minimal ONNX *encoder* (protobuf wire format written by hand) and a small
//! program AST for the program-enumerating checkers.
//!
//! The harness builds ONNX bytes itself and feeds them to the public
//! `rten::Model::load`, so every graph-level check also exercises the real
//! protobuf decoder and ONNX loader. Nothing here depends on rten-onnx.

pub mod pb;

use pb::Msg;

/// ONNX TensorProto.DataType values.
pub mod dtype {
    pub const FLOAT: i32 = 1;
    pub const UINT8: i32 = 2;
    pub const INT8: i32 = 3;
    pub const UINT16: i32 = 4;
    pub const INT16: i32 = 5;
    pub const INT32: i32 = 6;
    pub const INT64: i32 = 7;
    pub const STRING: i32 = 8;
    pub const BOOL: i32 = 9;
    pub const FLOAT16: i32 = 10;
    pub const DOUBLE: i32 = 11;
    pub const UINT32: i32 = 12;
    pub const UINT64: i32 = 13;
}

/// How a tensor's payload is stored in the TensorProto.
#[derive(Clone, Debug, PartialEq)]
pub enum TensorData {
    /// `raw_data` little-endian bytes
    Raw(Vec<u8>),
    /// `float_data` (packed)
    Floats(Vec<f32>),
    /// `int32_data` (packed varints)
    Int32s(Vec<i32>),
    /// `int64_data` (packed varints)
    Int64s(Vec<i64>),
    /// `double_data` (packed)
    Doubles(Vec<f64>),
    /// external data reference
    External { location: String, offset: Option<u64>, length: Option<u64> },
    /// no data field at all
    None,
}

#[derive(Clone, Debug, PartialEq)]
pub struct Tensor {
    pub name: String,
    pub dims: Vec<i64>,
    pub data_type: i32,
    pub data: TensorData,
}

impl Tensor {
    pub fn f32(name: &str, dims: &[i64], vals: &[f32]) -> Tensor {
        let mut raw = Vec::with_capacity(vals.len() * 4);
        for v in vals {
            raw.extend_from_slice(&v.to_le_bytes());
        }
        Tensor { name: name.into(), dims: dims.to_vec(), data_type: dtype::FLOAT, data: TensorData::Raw(raw) }
    }
    pub fn i64(name: &str, dims: &[i64], vals: &[i64]) -> Tensor {
        let mut raw = Vec::with_capacity(vals.len() * 8);
        for v in vals {
            raw.extend_from_slice(&v.to_le_bytes());
        }
        Tensor { name: name.into(), dims: dims.to_vec(), data_type: dtype::INT64, data: TensorData::Raw(raw) }
    }
    pub fn i32(name: &str, dims: &[i64], vals: &[i32]) -> Tensor {
        let mut raw = Vec::with_capacity(vals.len() * 4);
        for v in vals {
            raw.extend_from_slice(&v.to_le_bytes());
        }
        Tensor { name: name.into(), dims: dims.to_vec(), data_type: dtype::INT32, data: TensorData::Raw(raw) }
    }
    pub fn u8(name: &str, dims: &[i64], vals: &[u8]) -> Tensor {
        Tensor { name: name.into(), dims: dims.to_vec(), data_type: dtype::UINT8, data: TensorData::Raw(vals.to_vec()) }
    }
    pub fn i8(name: &str, dims: &[i64], vals: &[i8]) -> Tensor {
        Tensor {
            name: name.into(),
            dims: dims.to_vec(),
            data_type: dtype::INT8,
            data: TensorData::Raw(vals.iter().map(|v| *v as u8).collect()),
        }
    }
    pub fn bool(name: &str, dims: &[i64], vals: &[bool]) -> Tensor {
        Tensor {
            name: name.into(),
            dims: dims.to_vec(),
            data_type: dtype::BOOL,
            data: TensorData::Raw(vals.iter().map(|v| *v as u8).collect()),
        }
    }
    pub fn f64(name: &str, dims: &[i64], vals: &[f64]) -> Tensor {
        let mut raw = Vec::with_capacity(vals.len() * 8);
        for v in vals {
            raw.extend_from_slice(&v.to_le_bytes());
        }
        Tensor { name: name.into(), dims: dims.to_vec(), data_type: dtype::DOUBLE, data: TensorData::Raw(raw) }
    }

    pub fn encode(&self) -> Msg {
        let mut m = Msg::new();
        for d in &self.dims {
            m.varint(1, *d as u64);
        }
        m.varint(2, self.data_type as i64 as u64);
        match &self.data {
            TensorData::Raw(b) => {
                m.bytes(9, b);
            }
            TensorData::Floats(v) => {
                let mut p = Vec::new();
                for x in v {
                    p.extend_from_slice(&x.to_le_bytes());
                }
                m.bytes(4, &p);
            }
            TensorData::Int32s(v) => {
                let mut p = Vec::new();
                for x in v {
                    pb::put_varint(&mut p, *x as i64 as u64);
                }
                m.bytes(5, &p);
            }
            TensorData::Int64s(v) => {
                let mut p = Vec::new();
                for x in v {
                    pb::put_varint(&mut p, *x as u64);
                }
                m.bytes(7, &p);
            }
            TensorData::Doubles(v) => {
                let mut p = Vec::new();
                for x in v {
                    p.extend_from_slice(&x.to_le_bytes());
                }
                m.bytes(10, &p);
            }
            TensorData::External { location, offset, length } => {
                let mut kv = |k: &str, v: &str| {
                    let mut e = Msg::new();
                    e.string(1, k);
                    e.string(2, v);
                    e
                };
                let e = kv("location", location);
                m.msg(13, &e);
                if let Some(o) = offset {
                    let e = kv("offset", &o.to_string());
                    m.msg(13, &e);
                }
                if let Some(l) = length {
                    let e = kv("length", &l.to_string());
                    m.msg(13, &e);
                }
                m.varint(14, 1);
            }
            TensorData::None => {}
        }
        if !self.name.is_empty() {
            m.string(8, &self.name);
        }
        m
    }
}

#[derive(Clone, Debug, PartialEq)]
pub enum Attr {
    Int(i64),
    Float(f32),
    Str(String),
    Ints(Vec<i64>),
    Floats(Vec<f32>),
    Strs(Vec<String>),
    Tensor(Tensor),
    Graph(Graph),
}

#[derive(Clone, Debug, PartialEq, Default)]
pub struct Node {
    pub op_type: String,
    pub domain: String,
    pub name: String,
    pub inputs: Vec<String>,
    pub outputs: Vec<String>,
    pub attrs: Vec<(String, Attr)>,
}

impl Node {
    pub fn new(op_type: &str, inputs: &[&str], outputs: &[&str]) -> Node {
        Node {
            op_type: op_type.into(),
            domain: String::new(),
            name: format!("{}_{}", op_type, outputs.first().copied().unwrap_or("")),
            inputs: inputs.iter().map(|s| s.to_string()).collect(),
            outputs: outputs.iter().map(|s| s.to_string()).collect(),
            attrs: Vec::new(),
        }
    }
    pub fn attr(mut self, name: &str, a: Attr) -> Node {
        self.attrs.push((name.into(), a));
        self
    }
    pub fn domain(mut self, d: &str) -> Node {
        self.domain = d.into();
        self
    }
    pub fn named(mut self, n: &str) -> Node {
        self.name = n.into();
        self
    }

    pub fn encode(&self) -> Msg {
        let mut m = Msg::new();
        for i in &self.inputs {
            m.string(1, i);
        }
        for o in &self.outputs {
            m.string(2, o);
        }
        if !self.name.is_empty() {
            m.string(3, &self.name);
        }
        m.string(4, &self.op_type);
        for (name, a) in &self.attrs {
            let mut am = Msg::new();
            am.string(1, name);
            match a {
                Attr::Int(i) => {
                    am.varint(3, *i as u64);
                    am.varint(20, 2);
                }
                Attr::Float(f) => {
                    am.fixed32(2, f.to_bits());
                    am.varint(20, 1);
                }
                Attr::Str(s) => {
                    am.bytes(4, s.as_bytes());
                    am.varint(20, 3);
                }
                // onnx.proto is proto2: repeated scalar attribute fields are
                // NOT packed (one tag per element), unlike TensorProto data.
                Attr::Ints(v) => {
                    for x in v {
                        am.varint(8, *x as u64);
                    }
                    am.varint(20, 7);
                }
                Attr::Floats(v) => {
                    for x in v {
                        am.fixed32(7, x.to_bits());
                    }
                    am.varint(20, 6);
                }
                Attr::Strs(v) => {
                    for s in v {
                        am.bytes(9, s.as_bytes());
                    }
                    am.varint(20, 8);
                }
                Attr::Tensor(t) => {
                    am.msg(5, &t.encode());
                    am.varint(20, 4);
                }
                Attr::Graph(g) => {
                    am.msg(6, &g.encode());
                    am.varint(20, 5);
                }
            }
            m.msg(5, &am);
        }
        if !self.domain.is_empty() {
            m.string(7, &self.domain);
        }
        m
    }
}

/// A dimension in value metadata.
#[derive(Clone, Debug, PartialEq)]
pub enum Dim {
    Fixed(i64),
    Sym(String),
}

#[derive(Clone, Debug, PartialEq)]
pub struct ValueInfo {
    pub name: String,
    /// None = no type information at all
    pub elem_type: Option<i32>,
    /// None = unknown shape (rank unknown)
    pub shape: Option<Vec<Dim>>,
    /// declare as sequence<tensor<elem_type>>
    pub sequence: bool,
}

impl ValueInfo {
    pub fn new(name: &str, elem_type: i32, shape: &[Dim]) -> ValueInfo {
        ValueInfo { name: name.into(), elem_type: Some(elem_type), shape: Some(shape.to_vec()), sequence: false }
    }
    pub fn fixed(name: &str, elem_type: i32, shape: &[i64]) -> ValueInfo {
        ValueInfo {
            name: name.into(),
            elem_type: Some(elem_type),
            shape: Some(shape.iter().map(|d| Dim::Fixed(*d)).collect()),
            sequence: false,
        }
    }
    pub fn untyped(name: &str) -> ValueInfo {
        ValueInfo { name: name.into(), elem_type: None, shape: None, sequence: false }
    }
    pub fn typed_no_shape(name: &str, elem_type: i32) -> ValueInfo {
        ValueInfo { name: name.into(), elem_type: Some(elem_type), shape: None, sequence: false }
    }

    pub fn encode(&self) -> Msg {
        let mut m = Msg::new();
        m.string(1, &self.name);
        if let Some(et) = self.elem_type {
            let mut tt = Msg::new();
            tt.varint(1, et as u64);
            if let Some(shape) = &self.shape {
                let mut sh = Msg::new();
                for d in shape {
                    let mut dm = Msg::new();
                    match d {
                        Dim::Fixed(v) => dm.varint(1, *v as u64),
                        Dim::Sym(s) => dm.string(2, s),
                    };
                    sh.msg(1, &dm);
                }
                tt.msg(2, &sh);
            }
            let mut tp = Msg::new();
            tp.msg(1, &tt);
            if self.sequence {
                let mut seq = Msg::new();
                seq.msg(1, &tp);
                let mut outer = Msg::new();
                outer.msg(4, &seq);
                m.msg(2, &outer);
            } else {
                m.msg(2, &tp);
            }
        }
        m
    }
}

#[derive(Clone, Debug, PartialEq, Default)]
pub struct Graph {
    pub name: String,
    pub nodes: Vec<Node>,
    pub initializers: Vec<Tensor>,
    pub inputs: Vec<ValueInfo>,
    pub outputs: Vec<ValueInfo>,
    pub value_infos: Vec<ValueInfo>,
}

impl Graph {
    pub fn new(name: &str) -> Graph {
        Graph { name: name.into(), ..Default::default() }
    }

    pub fn encode(&self) -> Msg {
        let mut m = Msg::new();
        for n in &self.nodes {
            m.msg(1, &n.encode());
        }
        m.string(2, &self.name);
        for t in &self.initializers {
            m.msg(5, &t.encode());
        }
        for v in &self.inputs {
            m.msg(11, &v.encode());
        }
        for v in &self.outputs {
            m.msg(12, &v.encode());
        }
        for v in &self.value_infos {
            m.msg(13, &v.encode());
        }
        m
    }

    /// Encode as a complete ModelProto (ir_version 8, default-domain opset
    /// `opset`, plus the com.microsoft domain at version 1).
    pub fn to_model_bytes(&self, opset: i64) -> Vec<u8> {
        let mut m = Msg::new();
        m.varint(1, 8);
        m.string(2, "vp-onnx");
        m.msg(7, &self.encode());
        let mut os = Msg::new();
        os.string(1, "");
        os.varint(2, opset as u64);
        m.msg(8, &os);
        let mut ms = Msg::new();
        ms.string(1, "com.microsoft");
        ms.varint(2, 1);
        m.msg(8, &ms);
        m.into_bytes()
    }
}

pub const DEFAULT_OPSET: i64 = 21;

/// Convenience: build model bytes with the default opset.
pub fn model_bytes(g: &Graph) -> Vec<u8> {
    g.to_model_bytes(DEFAULT_OPSET)
}
