//! Protobuf wire-format writer that remembers where every field sits, so that
//! fault enumerators can target "every varint", "every length prefix", "every
//! tag" of an artefact without parsing it again.

#[derive(Clone, Debug, PartialEq)]
pub struct Span {
    /// byte offset of the tag
    pub tag_off: usize,
    /// byte offset of the value (varint bytes / length prefix for LEN fields / fixed bytes)
    pub val_off: usize,
    /// number of bytes of the varint, the length prefix, or the fixed value
    pub val_len: usize,
    /// for LEN fields: offset and length of the payload
    pub payload: Option<(usize, usize)>,
    pub field: u64,
    /// 0 varint, 1 fixed64, 2 LEN, 5 fixed32
    pub wire: u8,
    pub depth: u32,
}

#[derive(Clone, Debug, Default, PartialEq)]
pub struct Msg {
    pub buf: Vec<u8>,
    pub spans: Vec<Span>,
}

pub fn put_varint(out: &mut Vec<u8>, mut v: u64) {
    loop {
        let b = (v & 0x7f) as u8;
        v >>= 7;
        if v == 0 {
            out.push(b);
            break;
        }
        out.push(b | 0x80);
    }
}

pub fn varint_bytes(v: u64) -> Vec<u8> {
    let mut o = Vec::new();
    put_varint(&mut o, v);
    o
}

impl Msg {
    pub fn new() -> Msg {
        Msg::default()
    }

    fn tag(&mut self, field: u64, wire: u8) -> usize {
        let off = self.buf.len();
        put_varint(&mut self.buf, field << 3 | wire as u64);
        off
    }

    pub fn varint(&mut self, field: u64, v: u64) -> &mut Self {
        let tag_off = self.tag(field, 0);
        let val_off = self.buf.len();
        put_varint(&mut self.buf, v);
        let val_len = self.buf.len() - val_off;
        self.spans.push(Span { tag_off, val_off, val_len, payload: None, field, wire: 0, depth: 0 });
        self
    }

    pub fn fixed32(&mut self, field: u64, v: u32) -> &mut Self {
        let tag_off = self.tag(field, 5);
        let val_off = self.buf.len();
        self.buf.extend_from_slice(&v.to_le_bytes());
        self.spans.push(Span { tag_off, val_off, val_len: 4, payload: None, field, wire: 5, depth: 0 });
        self
    }

    pub fn fixed64(&mut self, field: u64, v: u64) -> &mut Self {
        let tag_off = self.tag(field, 1);
        let val_off = self.buf.len();
        self.buf.extend_from_slice(&v.to_le_bytes());
        self.spans.push(Span { tag_off, val_off, val_len: 8, payload: None, field, wire: 1, depth: 0 });
        self
    }

    pub fn bytes(&mut self, field: u64, b: &[u8]) -> &mut Self {
        let tag_off = self.tag(field, 2);
        let val_off = self.buf.len();
        put_varint(&mut self.buf, b.len() as u64);
        let val_len = self.buf.len() - val_off;
        let p_off = self.buf.len();
        self.buf.extend_from_slice(b);
        self.spans.push(Span {
            tag_off,
            val_off,
            val_len,
            payload: Some((p_off, b.len())),
            field,
            wire: 2,
            depth: 0,
        });
        self
    }

    pub fn string(&mut self, field: u64, s: &str) -> &mut Self {
        self.bytes(field, s.as_bytes())
    }

    pub fn msg(&mut self, field: u64, m: &Msg) -> &mut Self {
        let before = self.spans.len();
        self.bytes(field, &m.buf);
        let p_off = self.spans[before].payload.unwrap().0;
        for s in &m.spans {
            let mut s = s.clone();
            s.tag_off += p_off;
            s.val_off += p_off;
            if let Some((o, l)) = s.payload {
                s.payload = Some((o + p_off, l));
            }
            s.depth += 1;
            self.spans.push(s);
        }
        self
    }

    pub fn into_bytes(self) -> Vec<u8> {
        self.buf
    }
}

/// Replace the bytes `[off, off+len)` of `buf` by `with`.
pub fn splice(buf: &[u8], off: usize, len: usize, with: &[u8]) -> Vec<u8> {
    let mut o = Vec::with_capacity(buf.len() + with.len());
    o.extend_from_slice(&buf[..off]);
    o.extend_from_slice(with);
    o.extend_from_slice(&buf[off + len..]);
    o
}
