# Claims table used by tools/manifest.py: claim(id, engine, category, technique, text, note)
claim("C02", "mc-graph", "exploration",
      "exhaustive program enumeration x deviation-bounded strategy enumeration, naive-evaluator oracle",
      "Every program of a small operator grammar (all DAGs up to 2 ops over 11 kinds incl. If with captures, 3 ops over a reduced set, inputs with repetition) is run by the real Model::run for every requested-output subset and under every single deviation (thorough: pairs) from the default strategy: owned/borrowed inputs, thread-pool size 1/2/4, prepacked weights, every linear extension of the plan via Graph::verif_run_plan, buffer pool off. Results must equal a naive evaluator bit-for-bit (exact small-integer f32 values).",
      "Trusts the harness's naive evaluator and ONNX encoder; scheduling inside operator kernels/rayon is not controlled; 'any graph' is bounded to the stated grammar.")
claim("C03", "mc-graph", "exploration",
      "exhaustive graph x request enumeration against a backward-reachability reference planner",
      "Every abstract graph with up to 3 operators (5 operator kinds; every input slot ranges over all values, so cycles, self-loops and repeated inputs occur) x every request (input subsets, ordered output lists, duplicate/operator/unknown ids) goes through the real Graph::execution_plan (both PlanOptions); the plan must be duplicate-free, dependency-ordered, complete and minimal, errors must be justified, and every call must return (watchdog).",
      "Graphs are built through the hook re-exports with dummy operators; subgraph captures are covered by C24 programs, not here.")
claim("C06", "mc-tensor", "exploration",
      "exhaustive constructor box with exact (u128) validity oracle + address-level access checks + mutable-iterator history exploration",
      "Every (shape, strides, storage length) over alphabets that include wrap-around candidates (2^31, 2^32, 2^63, usize::MAX) through every checked constructor of Tensor/NdTensor/views; an accepted combination must be valid in exact arithmetic (all offsets in storage, injective for mutable storage); valid tensors are fully accessed through get/iter/get_mut/iter_mut with address-vs-allocation checks; mutable iterators are explored by consumption histories for out-of-bounds and repeated &mut.",
      "Out-of-bounds/aliasing are decided by address arithmetic, not by a UB detector; element type i32 only.")
claim("C07", "mc-tensor", "model_checking",
      "explicit-state exploration of iterator consumption histories on the real iterators with a reference window model",
      "For every layout of an enumerated family (rank<=3, sizes 0..3, all axis orders, stepped and broadcast strides) and every iterator kind (iter, iter_mut, lanes(_mut), Lane(Mut), inner_iter (dyn, static, mut), axis_iter(_mut), axis_chunks(_mut)) every history of next/next_back/nth/fold/split_at up to a depth bound is executed on the real iterator and completed by four drain modes; each yielded item is identified by element addresses and compared with the reference sequence; len()/size_hint must be exact after every step; mutable iterators must never repeat an element.",
      "No state de-duplication (implementation state is not observable); get(index) is trusted as the identity oracle (checked by C09). Parallel (rayon) consumption is covered through the split_at histories it is built from, not by running rayon.")
claim("C08", "mc-tensor", "exploration",
      "exhaustive (shape, strides) box with brute-force injectivity oracle in u128 + completeness family",
      "Every (shape, strides) of rank<=3 (thorough 4) over sizes 0..4 and strides 0..13 plus wrap-around candidates through DynLayout/NdLayout::from_shape_and_strides(DisallowOverlap) and TensorViewMut::from_data_with_strides: accepted implies no two indices share an offset and every offset fits the buffer; every layout derived from a contiguous one by <=2 of permute/stepped slice/index/split must be accepted.",
      "Aliasing decided by enumerating all indices (small sizes only).")
claim("C27", "mc-text", "exploration",
      "exhaustive string x tokenizer-configuration enumeration with round-trip and offset-law oracle",
      "Every string of <=4 (thorough 5) code points over a 15-symbol alphabet (ASCII, control, combining, byte_to_char images, CJK, astral, added-token text) x every byte-level BPE configuration (vocab implicit/explicit, 4 merge tables, pre-tokenizers, added token) : decode(encode(s)) == s, offsets non-decreasing on char boundaries, slices concatenate to s.",
      "Only loss-free configurations are judged for round trip; alphabet-bounded.")
claim("C28", "mc-text", "exploration",
      "bounded-exhaustive merge-table x input enumeration against textbook BPE",
      "Every merge table of <=4 (thorough 5) distinct pairs over {a,b} (and <=3/4 over {a,b,c}) x every input of bounded length through the real Bpe model; token ids must equal the reference BPE procedure (both textbook readings accepted where they differ, counted).",
      "ASCII base symbols only; ignore_merges and end-of-word suffix not covered.")
claim("C29", "mc-text", "exploration",
      "exhaustive request-box enumeration with window-arithmetic oracle",
      "Every (tokenizer model, CLS/SEP presence, single/pair input of n tokens, max_chunk_len, overlap) of the box through Tokenizer::encode_chunks; for every satisfiable request: chunk length <= limit, contiguous windows, exact overlap, full ordered coverage.",
      "Unsatisfiable requests (window 0, overlap >= window) are observations only. One known finding (final partial chunk lacks overlap; pinned by an in-tree unit test).")
claim("C30", "mc-text", "exploration",
      "exhaustive string x normalizer-chain enumeration with offset-map law oracle",
      "Every string of <=4 (thorough 5) symbols over a 14-symbol alphabet (case, combining, ligature, dotted I, sharp s, digraph, CJK, astral, control) x every normalizer and every Sequence of 2 (thorough 3): valid UTF-8, map length = normalized length, non-decreasing, in range, char-boundary at char-boundary positions.",
      "Lenient reading of 'every byte position' per DESIGN §2.4 (the in-tree tests pin identity byte maps).")
claim("C04", "mc-graph", "exploration",
      "exhaustive program x input-subset x output-set enumeration, differential oracle run(all) vs run(rest + partial_run(subset))",
      "Every program of the grammar (incl. RandomUniform sources and If with captures) x optimisation on/off x every subset of the graph inputs x output sets: feeding partial_run's results plus the remaining inputs to run must reproduce the full run; no value returned by partial_run may depend on a non-deterministic operator; a random source must still vary between runs after optimisation.",
      "Two graph inputs, so 4 subsets per program; outputs downstream of a random source are excluded from equality.")
claim("C24", "mc-graph", "exploration",
      "exhaustive template-hole enumeration of If/Loop programs against an inlining reference evaluator",
      "Programs with If, Loop, two Ifs sharing a capture, If-in-Loop and Loop-in-If; holes (bodies over captured parent values, capture reuse after the op / as graph output, constant and run-time conditions, trip counts 0..3, four loop-condition modes, carried values, scan outputs) are filled exhaustively; each program runs with optimisation on/off and owned/borrowed input; control-flow results and every parent value requested afterwards must equal the inlined evaluation.",
      "Scan outputs of zero-iteration loops are not asserted (rten reports an output-count error there); one nesting level.")
claim("C25", "mc-graph", "model_checking",
      "explicit exploration of run histories on one live model with a naive-evaluator oracle",
      "For every program (<=2 ops, 11 kinds) every history of <=2 (thorough 3) runs over {input fill} x {borrowed, owned} x {output set} executes on a freshly loaded model; after every run results equal the naive evaluator (so equal requests agree at every history position), borrowed input buffers are unchanged, and a final probe returns the original constants.",
      "The only mutable model state is the cached plan; histories are not de-duplicated.")
claim("C26", "mc-graph", "fault_enumeration",
      "exhaustive enumeration of malformed run requests with a defect-predicate oracle",
      "4 models (declared input metadata fixed/symbolic/dtype-only/none) x every input list (<=2 entries over valid, constant, intermediate, operator, unknown and i32::MAX ids with repetition x 8 tensor variants) x every output list x run/run_n/partial_run/run_one: a request with a listed defect must return Err, nothing may panic, defect-free well-formed requests must succeed. Requests are issued in sequence on one model, so plan-cache history effects are included.",
      "Constants supplied as inputs / requested as outputs are treated as legal.")
claim("C31", "mc-generate", "exploration",
      "exhaustive logit-vector x filter-parameter x ISA enumeration with total-order reference",
      "Every vector of length <=5 (thorough 6) over {0,1,-1,0.5,-inf,+inf,NaN,...}, structured vectors of every length up to 48/80, all K in 0..=n+2, nine P values, three TopP modes, dense and sparse ids, every chain of <=2 (and 3) filters, on forced generic/AVX2/AVX-512 dispatch: TopK = min(K,n) largest in descending total order, TopP = shortest prefix reaching the threshold and never empty, chains = composition, no panics.",
      "TopP::new is judged with the normalisation the constructed filter implements (doc/code default mismatch is an observation); -0.0 vs +0.0 treated as a tie.")
claim("C32", "mc-generate", "model_checking",
      "explicit-state BFS over generator call histories against a logging mock model",
      "Every history of <=7 (thorough 8) calls over {with_prompt, append_prompt x2, next, process_prompt, clear_prompt} x 13 mock model configurations (no KV cache, decoder and encoder-decoder KV cache, 3-D/4-D caches, capacities): each pending token reaches the model exactly once at contiguous positions, cache in = cache last out, prev_tokens equals everything submitted or produced, in order.",
      "Mock model built from public APIs; batch size 1; failing model runs not explored.")
claim("C33", "mc-generate", "exploration",
      "exhaustive candidate-set x scripted-uniform-draw enumeration (randomness owned through a hook)",
      "Every candidate set of size <=5 (thorough 6) over 8-10 score values incl. -inf and ties, dense and sparse ids, long sets, x 31 (87) scripted uniform draws through the force_target hook, on three ISAs: ArgMax returns a maximal id, Multinomial returns an id of the set with non-zero probability; seeds 0..=255 run twice give identical sequences.",
      "Sets where softmax is undefined (all -inf, +inf, NaN) are run but the probability clause is not judged.")
claim("C22", "mc-loom", "model_checking",
      "loom controlled-scheduler exploration of real concurrent Model::run/partial_run calls (preemption bound 2, thorough 3)",
      "The plan-cache mutex in Graph and the BufferPool primitives are loom's (cfg hook); 2 threads x 2 calls, 3 threads x 1 call (thorough also 2+1+1) over six calls with different input/output keys (each forcing plan-cache replacement), one equal-key pair and a partial_run; every interleaving of the synchronisation operations up to the preemption bound is executed on the real code and each call must return exactly its sequential result; deadlocks and panics are reported by loom / process isolation.",
      "Runs execute inline on loom threads (no rayon pool), so races inside operator kernels or rayon are invisible; the sequential half (a run is a function of graph, plan and inputs) is C02/C25.")
claim("C23", "mc-loom", "model_checking",
      "loom controlled-scheduler exploration of the real BufferPool with a linearizability oracle against a reference pool",
      "2 threads x <=2 operations and 3 threads x 1 operation over alloc<T>/add/alloc-then-return/PoolRef-drop with capacities around the 128-byte threshold and element types of equal and different size/alignment, on pools pre-seeded with 0-2 buffers; in every schedule up to the preemption bound: capacity >= requested, layout of a reused buffer valid for the requested type, no buffer held twice, hit/alloc counters and pool size balance with the number of buffers added, and the per-operation outcome vector equals that of some sequential order on a best-fit reference pool.",
      "loom's memory model for its own primitives; double free/leak is inferred from the bookkeeping balance, not from an allocator-level detector.")
claim("C35", "mc-misc", "exploration",
      "exhaustive lattice point-sequence enumeration with exact integer geometric predicates",
      "Every sequence of <=5 (thorough 6) points of the 4x4 integer lattice (repeats, collinear runs) and its images under scalings/translations; convex_hull (vertices subset of input, convex, contains all points), min_area_rect (contains all points), simplify_polyline/polygon for eps in {0,0.5,1,2} (first point kept, subsequence, dropped points within eps) judged with exact i64 cross products on the lattice pre-image.",
      "Rectangle containment uses a small relative slack in f64; extreme scalings (2^+-70) are observation only.")
claim("C36", "mc-misc", "exploration",
      "exhaustive binary-mask and shape-coordinate enumeration with flood-fill and bounding-box oracles",
      "All binary masks of sizes up to 4x4 plus 3x5, 5x3 and strips (thorough up to 5x5: 33.5M masks), both retrieval modes: contour points in range, foreground, border-adjacent, every component has an outer contour of its own pixels. Drawing on 4x4 (and other) images: every rectangle, line and polygon (<=4 vertices) on a lattice extending outside the image, several stroke widths: changed pixels must lie in image ∩ shape bounding box (inflated by stroke width). Drawing runs in isolated workers with a CPU-time watchdog.",
      "A panic in a drawing primitive is an observation (statement constrains which pixels change); zero-width polygons for fill_iter on a sub-lattice only (evidence says exhaustive:false for that family).")
claim("C39", "mc-misc", "exploration",
      "exhaustive simplex-lattice matrix enumeration with brute-force alignment oracle",
      "Every [T,L] log-probability matrix with rows on a simplex lattice (T<=3, L<=3, denominators 4 and 5; thorough 65 sub-boxes up to T=7) x beam widths 1..12,16,20 x n-best 1..12: greedy equals the collapsed arg-max path and its score; beam results have distinct label sequences, finite scores on positive matrices, scores never above the exact log-probability (all alignments enumerated in f64) and exact when the beam is at least as wide as the number of distinct collapsed sequences.",
      "Tolerance 1e-4 on log scores; arg-max ties accept any maximal path.")
claim("C11", "mc-shape", "exploration",
      "exhaustive expression-tree x assignment enumeration against a checked i64 evaluator",
      "All expression trees of depth <=2 over 12 leaves (constants incl. i32::MIN/MAX, two non-negative symbols, one free symbol) and depth <=1 over 14 leaves (thorough: depth 2 over 14 leaves and two depth-3 sub-boxes) x every assignment a,b in {0,1,2,3,5}, x in {-3..3}: simplify preserves the value wherever the original evaluates without division by zero/overflow/broadcast-precondition violation, range() contains it, is_positive implies >= 0, SymExpr::eval agrees with the reference.",
      "Full depth 3 is out of reach (10^12 trees); constants outside the alphabet not covered.")
claim("C10", "mc-shape", "exploration",
      "exhaustive single-operator/chain model enumeration: inferred shapes and constants vs execution on every instantiation",
      "189 catalogue entries (every operator with shape inference over its attribute grid, plus nine families of shape-arithmetic chains) x every fixed/symbolic mask of the input dims x value inputs as initializer or graph input x int/float constants; each variant is loaded (optimisation off), inferred with the real infer_shapes on the real graph, executed on every concrete instantiation, and every inferred rank, fixed dim, symbolic dim expression and constant value is compared with the produced value. Known findings listed in known_findings.json.",
      "Symbolic dims are read back from their printed form (all readings considered); sizes <= 3; DFT/STFT inert (fft feature off).")
claim("C15", "mc-ops", "exploration",
      "exhaustive single-operator model enumeration (attribute grid x shape grid x fills) against a hand-written ONNX reference",
      "116 claimed operators (listed in the evidence); every case is a single-operator ONNX model loaded with optimisation off and run through Model::run; per operator the complete product of attribute grid, broadcastable shape pairs (ranks 0-3 over {1,2,3}; thorough adds 5, rank 4 and long inner extents), element types and two fills; integer and exact-float cases are compared for equality with a naive f64/i64 reference written from the ONNX specification, transcendental/normalisation/interpolation ops with a documented tolerance. Known findings listed in known_findings.json.",
      "The reference is the harness author's reading of the ONNX specification (the onnx Python package is not available); spec-ambiguous regions are excluded from the claim and listed in the evidence; sequence, attention, RNN and optimizer-only operators are outside the catalogue.")
claim("C12", "mc-ops", "exploration",
      "same exhaustive operator-case enumeration; declared output-type rule vs dtype of every produced value",
      "For every case of the C15 catalogue plus further operators (127 in total) the operator's output_types() rule is resolved against the actual input dtypes and compared with the dtype (and tensor-vs-sequence kind) of each value produced by a successful run; graph-level infer_shapes type labels are checked too.",
      "Operators are reached through the hook re-exports (Model::verif_graph).")
claim("C13", "mc-ops", "exploration",
      "same exhaustive operator-case enumeration; in-place/commuted execution vs normal execution, bit-exact",
      "For every catalogue operator that reports in-place capability (56) and every case on which the normal run succeeds, the operator is invoked exactly as Graph::run_plan does (InPlaceInputs + None placeholder) with the owned operand contiguous, non-contiguous, with spare capacity, with room to grow, and in every operand position for commutative operators; outputs must be bit-identical in shape, dtype and data.",
      "Direct operator invocation through hook re-exports.")
claim("C14", "mc-ops", "exploration",
      "same exhaustive operator-case enumeration; layout variants of every input vs contiguous run, bit-exact",
      "Every catalogue case (125 operators) is re-run with each input as a permuted view, a stepped slice of a sentinel-padded buffer, a stride-0 broadcast view along every axis it is constant on, and all inputs non-contiguous at once; outputs must be bit-identical to the contiguous run.",
      "Negative strides do not exist in rten-tensor; TransformInputs wrappers are covered through C01.")
claim("C34", "mc-bytes", "fault_enumeration",
      "exhaustive round-trip enumeration (dtype x shape x layout x format) plus exhaustive single-point fault enumeration of seed files in crash/hang-isolating workers",
      "Round trip: 11 element types x every shape of rank 0-3 over {0,1,2,3} (85) x {contiguous, transposed, stepped, broadcast} x npy / npz (1-3 entries, unusual names) / safetensors: same shape, element type and bit patterns. Malformed: every byte string of length <=2, every truncation and single-byte substitution of six seed files, every u16/u32/u64 field position set to extremes, an npy header box (descr x fortran_order x shape tuples x data length): each reader returns Ok/Err without panic, abort or hang (forked workers, RLIMIT_AS, CPU watchdog).",
      "Only single-point faults of short seeds; writer-side panics on duplicate safetensors names are recorded as observations (statement is about tensors and reading).")
claim("C37", "mc-kernels", "exploration",
      "exhaustive box enumeration (block size x k-blocks x m x n x batch x code fills x scales x compute mode x ISA) against dequantize-then-naive-matmul",
      "BlockQuantizedGemm in both compute modes on every f32 kernel/ISA and the MatMulNBits operator: block sizes {16,32,64}, k-blocks {1,2,3,9}, n in {1,2,15,16,17,33}, m in {1,2,3}, batch {1,2,3}, 33 4-bit code fills, 4 scale families, exact-integer LHS families (equality oracle in Float and Int8 mode) and a float LHS family (1e-5 forward-error bound, Float mode).",
      "Int8 compute mode only on the int8-dot ISA that dispatch selects on this host; explicit zero_points / partial final blocks are rejected by rten today (an error, not a wrong product) and are only checked for not producing a wrong result.")
claim("C09", "mc-tensor", "model_checking",
      "explicit-state exploration of chains of layout operations on real tensors/views, reference NestedArray model stepped in lock-step, state de-duplication on (pointer, shape, strides)",
      "Start tensors: every shape of rank<=3 over {0,1,2,3} as contiguous owned, strided view of a bigger buffer, and owned with spare capacity (with_capacity+append), plus 11 larger layouts that reach copy.rs blocked paths; chains of depth 2 (thorough 3) over try_slice/slice/slice_copy with every item list over per-axis alphabets of indices and stepped/negative/clamped ranges, slice_axis, index_axis, split_at, permuted (all + invalid), transposed, move_axis, insert/remove_axis, merge_axes, squeezed, broadcast to every shape of rank<=3(4), reshaped/to_shape/into_shape to every factorisation, clip_dim, append, to_contiguous, to_tensor, map, copy_into_slice. Subject success implies model success with equal shape and elements; model-valid operations of the non-fallible API must succeed.",
      "The reference model's reading of slice_copy is NumPy semantics (clamped endpoints), of slice/try_slice strict bounds, as documented in rten-tensor; element type i32 only.")
claim("C38", "mc-bytes", "fault_enumeration",
      "exhaustive byte-string enumeration (all strings of length <=3, alphabet strings of length <=5) plus exhaustive single-field fault enumeration over the ONNX schema, instrumented reader for the linear-time budget, crash/hang-isolating workers",
      "Every byte string of length <=3 (16.8M) and every string of length 4..5 over 9 structural bytes; every LEN/varint field at every schema path of depth <=3 with extreme lengths (0,1,remaining+-1,2^31,2^32,2^63-1,2^63,2^64-k) and odd varints; every truncation/wire-type substitution of seed models; nesting depth up to 32768. Through parse_buf, parse_file, is_onnx_model, Model::load and ModelProto::decode over an instrumented BufRead+Seek that counts operations (budget linear in the input, no backward seek). A reference protobuf walker demands an error whenever a LEN field reached through well-formed fields is longer than the rest of the input. Workers are forked with RLIMIT_AS and a CPU watchdog so aborts, stack overflows and hangs are observed per case.",
      "Multi-point corruptions of long inputs are outside the box; wall-clock is only a watchdog, the linear-time clause is decided by operation counts.")
claim("C21", "mc-bytes", "fault_enumeration",
      "exhaustive enumeration of location strings x (offset, length) pairs x loaders in a sandbox directory with a reference path/bounds predicate",
      "Location strings: every sequence of <=3 components from a 29-element component alphabet (plain names, odd extensions, '.', '..', empty, unicode, NUL, drive-like, names of files outside the directory and in a sub-directory) with optional leading and trailing separators; (offset, length) over a 16-value alphabet up to 2^64-1 squared; loaders load_file, load_mmap and load+external_data. Reference: exactly one plain component with a recognised extension and offset+length (u128) within the file; Ok implies the constant's bytes equal that range of that file inside the model directory; everything else must be a load error; no panic/abort/hang (forked workers, RLIMIT_AS).",
      "POSIX path semantics only; symbolic links are outside the alphabet; spellings such as w.DATA/w.database are left undecided (if loaded, the bytes must still come from the plain file inside the directory).")
claim("C05", "mc-bytes", "fault_enumeration",
      "exhaustive single-point fault enumeration of seed ONNX and .rten models (bytes, truncations, varint/offset/dims fields x extremes) in crash/hang-isolating workers, with read-back of every constant",
      "Seeds: ONNX models for each initializer data path (raw_data, typed data, f16, external data, Constant nodes, subgraphs) and .rten files (V1/V2, inline and tensor-data section, the in-repo model-load-file-test.rten). Faults: every byte position x value alphabet, every truncation, every protobuf LEN/varint field x extreme values, every header offset/length and every u16/u32 of the flatbuffer x extremes, every initializer dims tuple over {0,1,2,2^31,2^32,2^62,2^63-1} x data lengths. Through Model::load, load_file and load_mmap. Oracle: returns within the watchdog, no panic/abort/signal; on Ok every top-level constant's shape product (u128) equals its element count and a run that requests it returns exactly those elements.",
      "No UB detector: undefined behaviour is observed only as a crash or a wrong constant; constants of subgraphs are checked through runs only.")
