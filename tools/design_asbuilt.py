#!/usr/bin/env python3
"""Regenerates DESIGN.md sections 10.3-10.5 (findings, fixes, false alarms, seeded table)
from /repo's git log, known_findings.json and seeded/*/meta.json."""
import json,glob,os,subprocess
V='/verif'
k=json.load(open(V+'/known_findings.json'))
fixes=subprocess.run(['git','-C','/repo','log','--reverse','--format=%h %s'],capture_output=True,text=True).stdout.splitlines()
fixes=[l for l in fixes if l.split(' ',1)[1].startswith('fix:')]
known=[f for f in k['findings'] if f['status']=='known']
out=[]
out.append("""
### 10.3 What the checks found on the pinned tree, and what was done about it

Every engine was first run on the unchanged tree; each violation was classified as a
genuine defect (reproduced against the real code by its replay artefact) or as a
false alarm of the machinery. Genuine defects with a small, safe repair were fixed
in /repo, one unguarded `fix:` commit per defect (%d commits; the pinned suite of
1259 tests passes, hooks off, after all of them); the others are known findings.
`known_findings.json` lists both (status `fixed` entries and the `fixed:` strings
suppress nothing; only `known` entries turn a matching signature into a
`KNOWN-FINDING:` line).

`fix:` commits in /repo, oldest first:
""" % len(fixes))
for l in fixes:
    h,s=l.split(' ',1)
    out.append(f"* `{h}` {s[5:]}")
out.append("""
Known findings (genuine, reproduced, not repaired; the check prints `KNOWN-FINDING:` for exactly these signatures):
""")
byp={}
for f in known: byp.setdefault(f['property'],[]).append(f)
for p in sorted(byp):
    for f in byp[p]:
        out.append(f"* **{p}** `{f['signature']}` - {f['what']}")
out.append(open(V+'/tools/design_asbuilt_static.md').read())
rows=[]
for d in sorted(glob.glob(V+'/seeded/*')):
    m=json.load(open(d+'/meta.json'))
    c=m.get('confirmed_by_main_session',{})
    det=c.get('detected_by','').replace('|','/').replace('\n',' ')
    rows.append(f"| `{os.path.basename(d)}` | {m['property']} | {det} |")
out.append("| seeded change | property | detected by (quick tier unless stated) |\n|---|---|---|\n"+"\n".join(rows))
out.append(open(V+'/tools/design_asbuilt_tail.md').read())
s=open(V+'/DESIGN.md').read()
marker="\n### 10.3 What the checks found"
if marker in s: s=s[:s.index(marker)]
s=s.rstrip('\n')+'\n'+'\n'.join(out)
open(V+'/DESIGN.md','w').write(s)
print("DESIGN.md lines:",len(s.splitlines()), "seeds:",len(rows), "fix commits:",len(fixes))
