#!/usr/bin/env python3
"""tools/fileseed.py <name> <srcdir> <property> '<detected_by>' '<note>'
Files a confirmed seeded change under /verif/seeded/<name>/ (patch.diff, demo files, meta.json)."""
import json, os, shutil, sys
name, src, prop, detected, note = sys.argv[1:6]
mirror = len(sys.argv) > 6 and sys.argv[6] == "mirror"
dst = os.path.join("/verif/seeded", name)
os.makedirs(dst, exist_ok=True)
for f in os.listdir(src):
    if f.endswith(".log") and os.path.getsize(os.path.join(src, f)) > 20000:
        continue
    shutil.copy(os.path.join(src, f), os.path.join(dst, f))
m = json.load(open(os.path.join(src, "meta.json")))
m["property"] = prop
m["confirmed_by_main_session"] = {
    "base_commit": os.popen("git -C /repo rev-parse --short HEAD").read().strip(),
    "ran": [
        "scratch worktree /tmp/sv at the base commit: git apply patch.diff; cargo nextest run --workspace --no-fail-fast --test-threads 8 --offline -> 1259 passed",
        "demo with the change applied -> fails; demo on the unmodified tree -> passes",
        ("checks run from a mirror of /verif whose path dependencies point at the scratch worktree with the change applied (same engines, /repo untouched): ./check <id> quick" if mirror else "git -C /repo apply patch.diff; ./check <id> quick; git -C /repo checkout -- ."),
    ],
    "detected_by": detected,
    "note": note,
}
json.dump(m, open(os.path.join(dst, "meta.json"), "w"), indent=1)
print("filed", dst)
