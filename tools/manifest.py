#!/usr/bin/env python3
"""Regenerates /verif/MANIFEST.json from the table below (one entry per claimed property)."""
import json, os, subprocess
V = os.path.dirname(os.path.dirname(os.path.abspath(__file__)))
props = [json.loads(l) for l in open(os.path.join(V, "properties.jsonl"))]
ids = [p["id"] for p in props]

# id: (engine, category, technique, level text, level note, design ref)
C = {}
def claim(i, engine, cat, technique, text, note):
    C[i] = dict(engine=engine, cat=cat, technique=technique, text=text, note=note)

exec(open(os.path.join(V, "tools", "claims.py")).read())

NA = {
 "C20": "rten-convert needs the onnx, protobuf and flatbuffers Python packages, none of which is installed or in the wheelhouse; the converter cannot be executed in this sandbox (DESIGN.md §3 C20)",
}
hooks = subprocess.run(["git", "-C", "/repo", "log", "--format=%h %s"], capture_output=True, text=True).stdout.splitlines()
hook_commits = [l.split()[0] for l in hooks if l.split(" ", 1)[1].startswith("verif hooks")]
m = {
 "version": 1,
 "setup_cmd": "cd /verif && ./check --build-all",
 "hooks": {
  "guard": "--cfg rten_verif (RUSTFLAGS); the loom build additionally uses --cfg rten_verif_loom",
  "enable": "./check builds the harness workspace (path dependencies on /repo crates) with RUSTFLAGS='--cfg rten_verif' and CARGO_TARGET_DIR=/verif/harness/target; harness-loom adds --cfg rten_verif_loom with its own target dir",
  "baseline_off_cmd": "cd /repo && (cargo nextest run --workspace --no-fail-fast --test-threads 8 --offline || cargo test --workspace --no-fail-fast --offline)",
  "source_commits": hook_commits,
  "add_only": True,
 },
 "engines": [],
 "checks": [],
 "not_applicable": [],
 "notes": "All checks are bounded-exhaustive explorations of the real rten code (see DESIGN.md). ./check <id> quick|thorough [--replay file]. Known findings: known_findings.json.",
}
engines = {}
for i in ids:
    if i in C:
        c = C[i]
        engines.setdefault(c["engine"], []).append(i)
        m["checks"].append({
            "property_id": i,
            "quick_cmd": f"cd /verif && ./check {i} quick",
            "thorough_cmd": f"cd /verif && ./check {i} thorough",
            "evidence_file": f"/verif/evidence/{i}.json",
            "replay_cmd_template": f"cd /verif && ./check {i} --replay {{path}}",
            "engine": c["engine"],
            "level_claimed": {"category": c["cat"], "text": c["text"], "design_ref": f"DESIGN.md §3 {i}"},
            "level_note": c["note"],
            "technique": c["technique"],
        })
    else:
        m["not_applicable"].append({"property_id": i, "reason": NA.get(i, "engine not finished yet (work in progress); not claimed until its check exists and passes on the unchanged tree")})
for e, ps in sorted(engines.items()):
    ws = "harness-loom" if e == "mc-loom" else "harness"
    m["engines"].append({"name": e, "path": f"/verif/{ws}/{e}", "serves_properties": ps, "kind_free_text": "Rust binary driving the real rten crates; exhaustive enumeration of a bounded box (see DESIGN.md)"})
json.dump(m, open(os.path.join(V, "MANIFEST.json"), "w"), indent=1)
print("claimed", len(C), "not_applicable", len(m["not_applicable"]))
