#!/bin/bash
# Runs the quick (or given) tier of every claimed check; prints rc and wall time per property.
tier=${1:-quick}
out=${2:-/tmp/runall}
mkdir -p $out
cd /verif
ids=$(python3 -c "import json; print(' '.join(c['property_id'] for c in json.load(open('MANIFEST.json'))['checks']))")
for c in $ids; do
  s=$(date +%s.%N)
  ./check $c $tier > $out/$c.log 2>&1; rc=$?
  e=$(date +%s.%N)
  printf "%s rc=%d wall=%.1fs viol=%s known=%s\n" $c $rc $(echo "$e - $s" | bc) "$(grep -c '^VIOLATION' $out/$c.log)" "$(grep -c '^KNOWN-FINDING' $out/$c.log)"
done
