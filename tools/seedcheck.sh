#!/bin/bash
# Applies a seeded change to /repo, runs the given checks (quick tier unless TIER is set), and always reverts.
#   tools/seedcheck.sh <patch.diff> <Cnn> [<Cnn>...]
p=$1; shift
cd /repo || exit 2
if [ -n "$(git status --porcelain --untracked-files=no)" ]; then echo "/repo is dirty"; exit 2; fi
git apply "$p" || exit 2
trap 'git -C /repo checkout -q -- .' EXIT
cd /verif
for c in "$@"; do
  ./check $c ${TIER:-quick} > /tmp/seedcheck-$c.log 2>&1; rc=$?
  echo "$c rc=$rc $(grep -c '^VIOLATION' /tmp/seedcheck-$c.log) violation line(s)"
  grep -E '^VIOLATION|MACHINERY' /tmp/seedcheck-$c.log | head -5
  grep -E 'signature:' /tmp/seedcheck-$c.log | sort | uniq -c | head -8
done
# evidence/replays written by seeded runs are not kept
git -C /verif checkout -q -- evidence replays 2>/dev/null
git -C /verif clean -qfd replays 2>/dev/null
exit 0
