#!/bin/sh
# Run a check against a scratch copy of robertknight/rten (a git worktree with a
# candidate change applied) WITHOUT touching /repo: mirrors /verif to /tmp/sr-<tag>
# with the path dependencies rewritten to the worktree.
#   tools/seedrun.sh <Cnn> <worktree> [quick|thorough] [tag]
set -e
ID=$1; WT=$2; TIER=${3:-quick}; TAG=${4:-$ID}
M=/tmp/sr-$TAG
mkdir -p $M
rsync -a --delete --exclude target --exclude evidence --exclude replays --exclude .git /verif/ $M/
mkdir -p $M/evidence
find $M/harness $M/harness-loom -name Cargo.toml | xargs sed -i "s#\"/repo#\"$WT#g"
cd $M && VERIF_DIR=$M ./check $ID $TIER
