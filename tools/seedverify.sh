#!/bin/bash
# Confirms a candidate seeded change in the scratch worktree /tmp/sv (created with
# `git -C /repo worktree add --detach /tmp/sv HEAD`): the patch applies, the whole
# existing suite passes with it, and (run separately) the demo fails with / passes without.
#   tools/seedverify.sh suite <patch.diff>     -> runs the pinned suite with the patch applied
set -e
cd /tmp/sv
git checkout -q -- . && git clean -qfd -e target
case "$1" in
 suite)
  git apply "$2"
  cargo nextest run --workspace --no-fail-fast --test-threads 8 --offline 2>&1 | tail -4
  git checkout -q -- . ;;
esac
